"""Runner for the model-based checks of /verif (see DESIGN.md, bin/check)."""
import argparse, collections, glob, json, os, re, shutil, subprocess, sys, time

ROOT = os.path.abspath(os.path.join(os.path.dirname(__file__), ".."))
SPEC = os.path.join(ROOT, "spec")
WORK = os.path.join(ROOT, "work")
REPO = os.environ.get("VERIF_REPO", "/repo")
GOENV = dict(GOFLAGS="-mod=mod", GOPROXY="off", GOSUMDB="off", GOTOOLCHAIN="local")

# deviation switches that describe the code as it is today (recorded, unrepaired findings + their excuses)
def known_findings():
    with open(os.path.join(ROOT, "known_findings.json")) as f:
        return json.load(f)

def current_dev():
    return sorted({d for k in known_findings()["findings"] if k["status"] == "known" for d in k.get("dev", [])})


class Infra(Exception):
    """The machinery failed; no verdict."""


def log(*a):
    print(*a, flush=True)


def run(cmd, timeout, env=None, cwd=None, out=None):
    e = dict(os.environ)
    if env:
        e.update(env)
    t0 = time.time()
    try:
        if out:
            with open(out, "w") as f:
                p = subprocess.run(cmd, cwd=cwd, env=e, stdout=f, stderr=subprocess.STDOUT, timeout=timeout)
        else:
            p = subprocess.run(cmd, cwd=cwd, env=e, stdout=subprocess.PIPE, stderr=subprocess.STDOUT, timeout=timeout)
    except subprocess.TimeoutExpired:
        subprocess.run(["pkill", "-f", "tlc2.TL[C]"], stdout=subprocess.DEVNULL, stderr=subprocess.DEVNULL)
        raise Infra("timeout after %ss: %s" % (timeout, " ".join(cmd[:6])))
    return p, time.time() - t0


# ------------------------------------------------------------------------------------------- harness
def build_harness():
    os.makedirs(os.path.join(WORK, "bin"), exist_ok=True)
    hdir = os.path.join(ROOT, "harness")
    # go.sum of the harness module = union of the repository modules' sums (offline, no proxy)
    sums = set()
    for m in ("module", "minter-connector", "keys-generator", "oracle"):
        p = os.path.join(REPO, m, "go.sum")
        if os.path.exists(p):
            sums.update(open(p).read().splitlines())
    keep = os.path.join(hdir, "go.sum.extra")
    if os.path.exists(keep):
        sums.update(open(keep).read().splitlines())
    with open(os.path.join(hdir, "go.sum"), "w") as f:
        f.write("\n".join(sorted(s for s in sums if s.strip())) + "\n")
    # programs of the repository that live in package main (connector relay loop, oracle service, key tool) are copied
    # into generated packages FIRST: everything built below must see the current working tree
    import genconn
    try:
        genconn.generate()
    except Exception as e:
        raise Infra("cannot generate the packages from the repository's main.go files: %s" % e)
    binp = os.path.join(WORK, "bin", "vh")
    p, dt = run(["go", "build", "-tags", "verif", "-o", binp, "./cmd/vh"], 900, env=GOENV, cwd=hdir)
    if p.returncode != 0:
        sys.stdout.write(p.stdout.decode(errors="replace")[-4000:])
        raise Infra("harness build failed (does /repo still compile with -tags verif?)")
    p, dt2 = run(["go", "build", "-tags", "verif", "-o", os.path.join(WORK, "bin", "vhconn"), "./cmd/vhconn"], 900, env=GOENV, cwd=hdir)
    if p.returncode != 0:
        sys.stdout.write(p.stdout.decode(errors="replace")[-4000:])
        raise Infra("connector driver build failed (does /repo/minter-connector still compile?)")
    # the operators' key tool (signature for MsgDelegateKeys), a verbatim copy of keys-generator's main.go
    kg = os.path.join(WORK, "bin", "vkeygen")
    p, dt3 = run(["go", "build", "-tags", "verif", "-o", kg, "./gen/keygenmain"], 900, env=GOENV, cwd=hdir)
    if p.returncode != 0:
        sys.stdout.write(p.stdout.decode(errors="replace")[-4000:])
        raise Infra("key tool build failed (does /repo/keys-generator still compile?)")
    os.environ["VERIF_KEYGEN"] = kg
    return binp, dt + dt2 + dt3


# ------------------------------------------------------------------------------------------- TLC
def tlc_cfg(src, dst, subst, optional=("WatchNames", "Dev", "OracleDev")):
    """copy a .cfg replacing  NAME = value  lines"""
    txt = open(src).read()
    for k, v in subst.items():
        txt, n = re.subn(r"(?m)^(\s*%s\s*=\s*).*$" % re.escape(k), lambda m: m.group(1) + v, txt)
        if n == 0 and k not in optional:
            raise Infra("cfg %s has no constant %s" % (src, k))
    open(dst, "w").write(txt)


def dev_value(dev):
    return "{" + ", ".join('"%s"' % d for d in dev) + "}"


def tlc(module, cfg, workdir, timeout, extra=(), env=None, workers="16"):
    meta = os.path.join(workdir, "meta-" + os.path.basename(cfg))
    shutil.rmtree(meta, ignore_errors=True)
    out = os.path.join(workdir, os.path.basename(cfg) + ".out")
    cmd = ["tlc", "-noGenerateSpecTE", "-workers", workers, "-metadir", meta, "-config", cfg] + list(extra) + [module]
    env = dict(env or {})
    # a small, fixed heap: with TLC's default (25% of RAM) most of the run time is the kernel faulting in fresh pages
    env.setdefault("JAVA_TOOL_OPTIONS", "-Xmx6g -Xmn2g -Xss256m")
    p, dt = run(cmd, timeout, env=env, cwd=SPEC, out=out)
    txt = open(out, errors="replace").read()
    shutil.rmtree(meta, ignore_errors=True)
    return p.returncode, txt, dt, out


def parse_counts(txt):
    m = re.findall(r"(\d[\d,]*) states generated, (\d[\d,]*) distinct states found", txt)
    if not m:
        m2 = re.search(r"The number of states generated: (\d+)", txt)
        if m2:
            return int(m2.group(1)), int(m2.group(1))
        return 0, 0
    g, d = m[-1]
    return int(g.replace(",", "")), int(d.replace(",", ""))


def all_check_names():
    return sorted(set(re.findall(r'"(C\d\d:[A-Za-z0-9^]+)"', open(os.path.join(SPEC, "Props.tla")).read())))


def watch_names(plan):
    names = [n for n in all_check_names() if any(n.startswith(w) for w in plan["watch"])]
    return "{" + ", ".join('"%s"' % n for n in names) + "}"


def design_check(spec, workdir, tier, dev, watch="{}"):
    """exhaustive TLC run of a bounded model; returns dict(states, transitions, wall, cfg)"""
    src = os.path.join(SPEC, spec["cfg"])
    dst = os.path.join(workdir, os.path.basename(src))
    subst = {"Dev": dev_value(dev), "OracleDev": dev_value(dev), "WatchNames": watch}
    subst.update(spec.get(tier, {}))
    tlc_cfg(src, dst, subst)
    rc, txt, dt, out = tlc(spec["module"], dst, workdir, spec.get("timeout", 600))
    gen, dist = parse_counts(txt)
    ok = "Model checking completed. No error has been found." in txt
    if not ok:
        viol = re.search(r"Invariant (\w+) is violated", txt)
        cex = None
        if viol:
            # second run with the action history switched on: the violated invariant writes the behaviour out
            subst2 = dict(subst)
            subst2["KeepHist"] = "TRUE"
            dst2 = dst + ".cex.cfg"
            tlc_cfg(src, dst2, subst2)
            cexp = os.path.join(workdir, os.path.basename(src) + ".cex.json")
            if os.path.exists(cexp):
                os.remove(cexp)
            tlc(spec["module"], dst2, workdir, spec.get("timeout", 600), env={"VERIF_CEX": cexp})
            if os.path.exists(cexp):
                cex = {"id": "cex-" + os.path.basename(src), "family": spec.get("family", "econ"), "acts": json.load(open(cexp))}
        return dict(ok=False, states=dist, transitions=gen, wall=dt, out=out, invariant=viol.group(1) if viol else None, cfg=spec["cfg"], cex=cex)
    return dict(ok=True, states=dist, transitions=gen, wall=dt, cfg=spec["cfg"], constants=subst)


def simulate_scripts(spec, workdir, tier, dev, seed, watch="{}"):
    """TLC simulation mode: one JSON script per behaviour"""
    src = os.path.join(SPEC, spec["cfg"])
    dst = os.path.join(workdir, os.path.basename(src))
    subst = {"Dev": dev_value(dev), "OracleDev": dev_value(dev), "WatchNames": watch}
    subst.update(spec.get(tier, {}))
    tlc_cfg(src, dst, subst)
    outdir = os.path.join(workdir, "scripts-" + os.path.basename(src))
    shutil.rmtree(outdir, ignore_errors=True)
    os.makedirs(outdir)
    num = spec["num"][0 if tier == "quick" else 1]
    rc, txt, dt, out = tlc(spec["module"], dst, workdir, spec.get("timeout", 900),
                           extra=["-simulate", "num=%d" % num, "-depth", str(spec.get("depth", 200)), "-seed", str(seed)],
                           env={"VERIF_OUT": outdir, "VERIF_CEX": os.path.join(outdir, "cex.json")}, workers="1")
    if "Error:" in txt and "is violated" not in txt:
        raise Infra("TLC simulation failed, see " + out)
    gen, _ = parse_counts(txt)
    scripts = []
    files = sorted(glob.glob(os.path.join(outdir, "s*.json")), key=lambda p: int(re.findall(r"s(\d+)\.json", p)[0]))
    for f in files:
        try:
            acts = json.load(open(f))
        except Exception:
            continue
        tag = os.path.basename(src)[3:-4].lower()
        sc = {"id": "%s-%d-%s" % (tag, seed, os.path.basename(f)[:-5]), "family": spec.get("family", ""), "acts": acts}
        if spec.get("script_cfg"):
            sc["cfg"] = json.load(open(os.path.join(ROOT, "scripts", spec["script_cfg"])))
        sc.update(spec.get("script_extra", {}))
        scripts.append(sc)
    viol = re.search(r"Invariant (\w+) is violated", txt)
    cex = None
    if viol and os.path.exists(os.path.join(outdir, "cex.json")):
        cex = {"id": "cex-" + os.path.basename(src), "family": spec.get("family", ""), "acts": json.load(open(os.path.join(outdir, "cex.json")))}
    return scripts, dict(states=gen, wall=dt, behaviours=len(scripts), model_violation=viol.group(1) if viol else None, out=out, cex=cex)


def enumerate_scripts(spec, workdir, tier, dev, seed):
    """exhaustive TLC run that writes out every maximal behaviour of a small bounded model; a seeded sample is replayed"""
    import random
    src = os.path.join(SPEC, spec["cfg"])
    dst = os.path.join(workdir, os.path.basename(src))
    subst = {"Dev": dev_value(dev)}
    subst.update(spec.get(tier, {}))
    tlc_cfg(src, dst, subst)
    outdir = os.path.join(workdir, "enum-" + os.path.basename(src))
    shutil.rmtree(outdir, ignore_errors=True)
    os.makedirs(outdir)
    rc, txt, dt, out = tlc(spec["module"], dst, workdir, spec.get("timeout", 900),
                           env={"VERIF_OUT": outdir, "VERIF_CEX": os.path.join(outdir, "cex.json")}, workers="1")
    if "No error has been found" not in txt:
        raise Infra("enumeration run of %s failed, see %s" % (spec["cfg"], out))
    gen, dist = parse_counts(txt)
    files = sorted(glob.glob(os.path.join(outdir, "s*.json")))
    total = len(files)
    limit = spec["sample"][0 if tier == "quick" else 1]
    if limit and total > limit:
        random.Random(seed).shuffle(files)
        files = sorted(files[:limit])
    scripts = []
    tag = os.path.basename(src)[3:-4].lower()
    for f in files:
        acts = spec.get("prefix", []) + json.load(open(f))
        scripts.append({"id": "%s-%s" % (tag, os.path.basename(f)[:-5]), "family": spec.get("family", ""), "acts": acts})
    shutil.rmtree(outdir, ignore_errors=True)
    return scripts, dict(ok=True, states=dist, transitions=gen, wall=dt, cfg=spec["cfg"], constants=subst, behaviours_total=total, behaviours_replayed=len(scripts))


def load_static(patterns):
    scripts = []
    for pat in patterns:
        for f in sorted(glob.glob(os.path.join(ROOT, "scripts", pat))):
            for line in open(f):
                line = line.strip()
                if line and not line.startswith("#"):
                    scripts.append(json.loads(line))
    return scripts


def replay(vh, scripts, workdir, name="trace", digest=False):
    sp = os.path.join(workdir, name + ".scripts.ndjson")
    with open(sp, "w") as f:
        for s in scripts:
            f.write(json.dumps(s) + "\n")
    tp = os.path.join(workdir, name + ".trace.ndjson")
    loop = [s for s in scripts if s.get("family") == "minter"]
    rest = [s for s in scripts if s.get("family") != "minter"]
    dt = 0.0
    parts = []
    if rest or not loop:
        with open(sp, "w") as f:
            for s in rest:
                f.write(json.dumps(s) + "\n")
        cmd = [vh, "run", "-scripts", sp, "-out", tp + ".hub"] + (["-digest"] if digest else [])
        p, dt = run(cmd, 1800)
        if p.returncode != 0:
            sys.stdout.write(p.stdout.decode(errors="replace")[-3000:])
            raise Infra("harness run failed")
        parts.append(tp + ".hub")
    if loop:
        # real hub + real connector functions + Minter chain model
        lp = os.path.join(workdir, name + ".loop.scripts.ndjson")
        with open(lp, "w") as f:
            for s in loop:
                f.write(json.dumps(s) + "\n")
        cmd = [os.path.join(os.path.dirname(vh), "vhconn"), "-config", os.path.join(ROOT, "scripts", "connector.toml"), "run", "-scripts", lp, "-out", tp + ".loop"]
        p, dt2 = run(cmd, 1800)
        dt += dt2
        if p.returncode != 0:
            sys.stdout.write(p.stdout.decode(errors="replace")[-3000:])
            raise Infra("connector driver run failed")
        parts.append(tp + ".loop")
    with open(tp, "w") as out:
        for part in parts:
            with open(part) as f:
                shutil.copyfileobj(f, out)
            os.remove(part)
    return tp, dt


def validate(trace, workdir, dev, name="trace", module="Trace.tla", cfgname="Trace.cfg"):
    dst = os.path.join(workdir, name + "." + cfgname)
    tlc_cfg(os.path.join(SPEC, cfgname), dst, {"Dev": dev_value(dev), "OracleDev": dev_value(dev)})
    rep = os.path.join(workdir, name + ".report.json")
    if os.path.exists(rep):
        os.remove(rep)
    env = {"VERIF_TRACE": trace, "VERIF_REPORT": rep}
    rc, txt, dt, out = tlc(module, dst, workdir, 1800, env=env, workers="1")
    if not os.path.exists(rep) or "No error has been found" not in txt:
        tail = "\n".join(l[:300] for l in txt.splitlines() if not l.startswith(("Parsing", "Semantic", "Linting")))[-3000:]
        sys.stdout.write(tail + "\n")
        raise Infra("trace validation did not complete (the specification could not consume the trace), see " + out)
    r = json.load(open(rep))
    r["wall"] = dt
    gen, dist = parse_counts(txt)
    r["tlc_states"] = dist
    return r


def script_of(scripts, sid):
    for s in scripts:
        if s["id"] == sid:
            return s
    return None


def match_known(prop, check, detail):
    for k in known_findings()["findings"]:
        if k["status"] != "known" or k["property"] != prop:
            continue
        for c in k["checks"]:
            if c[0] == check and (len(c) == 1 or c[1] == "*" or c[1] == detail):
                return k
    return None


# ------------------------------------------------------------------------------------------- properties
ECON_MC = dict(module="MC_Hub.tla", cfg="MC_Econ.cfg", timeout=900,
               quick={"MaxLen": "8"}, thorough={"MaxLen": "12", "MaxBlocks": "3"})
ECON_SIM = dict(module="MC_Hub.tla", cfg="MC_EconSim.cfg", family="econ", num=(40, 200), depth=200, timeout=3000,
                quick={"MaxLen": "40"}, thorough={"MaxLen": "70"})
ECON2_SIM = dict(module="MC_Hub.tla", cfg="MC_Econ2Sim.cfg", family="econ", num=(40, 200), depth=200, timeout=3000,
                 quick={"MaxLen": "60"}, thorough={"MaxLen": "80"})
# the same behaviours on a genesis with a holders list (commission discount tiers: e5 holds exactly 2, e6 just below 32, e8 exactly 1 HUB)
ECONH_SIM = dict(module="MC_Hub.tla", cfg="MC_EconHoldSim.cfg", family="econ", num=(20, 300), depth=200, timeout=3000,
                 quick={"MaxLen": "40"}, thorough={"MaxLen": "70"}, script_cfg="cfg_holders.json")
FEES_SIM = dict(module="MC_Hub.tla", cfg="MC_FeesSim.cfg", family="fees", num=(60, 250), depth=240, timeout=3000,
                quick={"MaxLen": "70"}, thorough={"MaxLen": "90"}, script_cfg="cfg_keys_prices.json")
# governance: passed cold-storage proposals among the econ actions
GOV_MC = dict(module="MC_Hub.tla", cfg="MC_Gov.cfg", timeout=900, quick={"MaxLen": "7"}, thorough={"MaxLen": "10", "MaxBlocks": "3"})
GOV_SIM = dict(module="MC_Hub.tla", cfg="MC_GovSim.cfg", family="gov", num=(20, 300), depth=200, timeout=3000,
               quick={"MaxLen": "50"}, thorough={"MaxLen": "70"})
ATTEST_MC = dict(module="MC_Hub.tla", cfg="MC_Attest.cfg", timeout=1500, quick={"MaxLen": "6"}, thorough={"MaxLen": "9"})
ATTEST_SIM = dict(module="MC_Hub.tla", cfg="MC_AttestSim.cfg", family="attest", num=(40, 200), depth=200, timeout=3000,
                  quick={"MaxLen": "40"}, thorough={"MaxLen": "60"})

VALSET_MC = dict(module="MC_Hub.tla", cfg="MC_Valset.cfg", timeout=1500, quick={"MaxLen": "5"}, thorough={"MaxLen": "7"})
VALSET_SIM = dict(module="MC_Hub.tla", cfg="MC_ValsetSim.cfg", family="valset", num=(40, 200), depth=200, timeout=3000,
                  quick={"MaxLen": "40"}, thorough={"MaxLen": "60"})

REGISTRY_ENUM = dict(module="MC_Hub.tla", cfg="MC_Registry.cfg", family="valset", timeout=1500, sample=(2500, 0),
                     prefix=[{"k": "Begin", "dt": 1}], quick={}, thorough={})

ORACLE_MC = dict(module="MC_Oracle.tla", cfg="MC_Oracle.cfg", timeout=1500, quick={"MaxLen": "6"}, thorough={"MaxLen": "8"})
ORACLE_SIM = dict(module="MC_Oracle.tla", cfg="MC_OracleSim.cfg", family="oracle", num=(60, 250), depth=240, timeout=3000,
                  quick={"MaxLen": "60"}, thorough={"MaxLen": "80"}, script_cfg="cfg_oracle.json")

EVM_MC = dict(module="MC_Evm.tla", cfg="MC_Evm.cfg", timeout=1500, quick={"MaxLen": "5"}, thorough={"MaxLen": "6"})
EVM_SIM = dict(module="MC_Evm.tla", cfg="MC_EvmSim.cfg", family="evm", num=(40, 160), depth=300, timeout=3000,
               quick={"MaxLen": "90"}, thorough={"MaxLen": "120"}, script_cfg="cfg_evm.json", script_extra={"evm": "ethereum"})

MINTER_MC = dict(module="MC_Minter.tla", cfg="MC_Minter.cfg", timeout=2400, quick={"MaxLen": "5"}, thorough={"MaxLen": "6"})
MINTER_SIM = dict(module="MC_Minter.tla", cfg="MC_MinterSim.cfg", family="minter", num=(10, 150), depth=400, timeout=6000,
                  quick={"MaxLen": "90"}, thorough={"MaxLen": "120"}, script_cfg="cfg_minter.json")

# the whole bridge: hub + real contract bytecode (ethereum) + Minter multisig model + real connectors, in one behaviour
FULL_SIM = dict(module="MC_Full.tla", cfg="MC_FullSim.cfg", family="minter", num=(6, 80), depth=500, timeout=6000,
                quick={"MaxLen": "110"}, thorough={"MaxLen": "140"}, script_cfg="cfg_full.json", script_extra={"evm": "ethereum"})

# the Minter loop as a plan of its own (used by C20 next to its vector checks)
MINTER_LOOP = dict(mc=[MINTER_MC], sim=[MINTER_SIM], static=["minter*.ndjson"],
                   watch=["C20:", "conf:resync", "conf:relay"],
                   need={"ConnScan/ok": 20, "ConnRestart/ok": 10, "Claim/ok": 20, "MntDeposit/ok": 10})

# v3 bonded without a key for the chain
EVM2_MC = dict(module="MC_Evm.tla", cfg="MC_Evm2.cfg", timeout=1500, quick={"MaxLen": "4"}, thorough={"MaxLen": "6"})
EVM2_SIM = dict(module="MC_Evm.tla", cfg="MC_EvmSim2.cfg", family="evm", num=(12, 200), depth=300, timeout=3000,
                quick={"MaxLen": "90"}, thorough={"MaxLen": "120"}, script_cfg="cfg_evm2.json", script_extra={"evm": "ethereum"})

# the same loop on BSC (its own timeout arithmetic, gas price key and token list)
EVMBSC_SIM = dict(module="MC_Evm.tla", cfg="MC_EvmSimBsc.cfg", family="evm", num=(12, 200), depth=300, timeout=3000,
                  quick={"MaxLen": "90"}, thorough={"MaxLen": "120"}, script_cfg="cfg_evm_bsc.json", script_extra={"evm": "bsc"})

PROPS = {
    "C08": dict(mc=[EVM_MC, EVM2_MC, MINTER_MC], sim=[EVM_SIM, EVM2_SIM, EVMBSC_SIM, MINTER_SIM, FULL_SIM], static=["evm*.ndjson", "minter*.ndjson"],
                watch=["C08:", "C07:CheckpointAgrees", "C13:WithdrawnBatchExecuted", "conf:ss", "conf:sigs", "conf:loss", "conf:lon", "conf:relay"],
                need={"EvmUpdateValset/ok": 3, "EvmUpdateValset/revert": 3, "EvmSubmitBatch/ok": 2, "EvmSubmitBatch/revert": 2, "EvmDeposit/ok": 5, "Claim/ok": 20,
                      "ConnValsets/ok": 10, "ConnBatches/ok": 3, "ConnScan/ok": 10}),
    "C18": dict(mc=[ORACLE_MC], sim=[ORACLE_SIM], static=["oracle*.ndjson"], trace=("TraceOracle.tla", "TraceOracle.cfg"),
                watch=["C18:", "conf:or"],
                need={"Price/ok": 10, "Price/err": 2, "Holders/ok": 5, "PricesChanged": 2, "HoldersChanged": 1, "AttWithSeveralVoters": 5, "OrcRelay/ok": 10}),
    "C19": dict(mc=[], sim=[FEES_SIM], static=["fees*.ndjson", "c05_zero_share.ndjson"],
                watch=["C19:", "conf:fr", "conf:bal", "conf:pool"],
                need={"ExtExec/ok": 3, "Claim/ok": 9, "End/ok": 5}),
    "C09": dict(mc=[VALSET_MC], sim=[VALSET_SIM], static=["valset*.ndjson"],
                watch=["C09:", "conf:ss"],
                need={"SetKeys/ok": 3, "Begin/ok": 5, "Stake/ok": 2}),
    "C16": dict(mc=[VALSET_MC], sim=[VALSET_SIM], static=["valset*.ndjson"],
                watch=["C16:", "conf:sigs"],
                need={"SetKeys/ok": 3, "Confirm/ok": 2, "Confirm/err": 2}),
    "C17": dict(mc=[VALSET_MC], enum=[REGISTRY_ENUM], sim=[VALSET_SIM], static=["valset*.ndjson"],
                watch=["C17:", "conf:keys"],
                need={"SetKeys/ok": 3, "SetKeys/err": 3}),
    "C01": dict(mc=[ECON_MC, GOV_MC], sim=[ECON_SIM, ECON2_SIM, GOV_SIM, EVM_SIM, MINTER_SIM, FULL_SIM], static=["econ*.ndjson", "minter*.ndjson", "gov*.ndjson"],
                watch=["C01:", "conf:bal", "conf:sup", "C08:MinterTxMatches"],
                need={"ExtDeposit/ok": 3, "Claim/ok": 6, "End/ok": 3, "Send/ok": 5}),
    "C02": dict(mc=[ATTEST_MC], sim=[ATTEST_SIM, ECON_SIM], static=["attest*.ndjson"],
                watch=["C02:", "conf:votes", "conf:lon"],
                need={"Claim/ok": 5, "Claim/err": 1, "End/ok": 3, "Stake/ok": 1}),
    "C11": dict(mc=[ECON_MC], sim=[ECON_SIM, ECONH_SIM, FEES_SIM], static=["econ*.ndjson"],
                watch=["C11:", "conf:bal", "conf:sup", "conf:pool", "conf:out"],
                need={"Send/ok": 5, "Send/err": 1, "Claim/ok": 6, "End/ok": 3}),
    "C03": dict(mc=[ATTEST_MC], sim=[ATTEST_SIM, ECON_SIM], static=["attest*.ndjson"],
                watch=["C03:", "conf:lon", "conf:votes", "conf:lnv"],
                need={"Claim/ok": 5, "Claim/err": 1, "End/ok": 3}),
    "C04": dict(mc=[ECON_MC], sim=[ECON_SIM, ECON2_SIM, GOV_SIM], static=["econ*.ndjson", "gov*.ndjson"],
                watch=["C04:", "conf:pool", "conf:bat", "conf:st", "conf:cnt"],
                need={"Send/ok": 5, "Cancel/ok": 1, "ReqBatch/ok": 1, "End/ok": 3}),
    "C10": dict(mc=[ECON_MC], sim=[ECON_SIM], static=["econ*.ndjson"], bulk=["bulk_batch*.ndjson"], restart=["cnt.bn", "cnt.seq"],
                watch=["C10:", "conf:bat", "conf:cnt"],
                need={"Send/ok": 5, "ReqBatch/ok": 1, "Begin/ok": 3}),
    "C12": dict(mc=[ECON_MC], sim=[ECON_SIM, GOV_SIM], static=["econ*.ndjson", "gov*.ndjson"],
                watch=["C12:", "conf:out", "conf:bal", "conf:pool"],
                need={"Cancel/ok": 1, "Cancel/err": 1, "End/ok": 3}),
    "C13": dict(mc=[ECON_MC], sim=[ECON_SIM, ECON2_SIM], static=["econ*.ndjson"],
                watch=["C13:", "conf:bat", "conf:pool"],
                need={"ReqBatch/ok": 1, "Claim/ok": 3, "End/ok": 3}),
}


def evidence_path(prop):
    return os.path.join(ROOT, "evidence", prop + ".json")


def write_evidence(prop, tier, seed, cov, wall, violations, assumptions):
    os.makedirs(os.path.join(ROOT, "evidence"), exist_ok=True)
    ev = dict(property_id=prop, tier=tier, seed=seed, level="model_checking", coverage=cov, assumptions=assumptions,
              wall_s=round(wall, 1), violations=violations)
    tmp = evidence_path(prop) + ".tmp"
    with open(tmp, "w") as f:
        json.dump(ev, f, indent=1, sort_keys=True)
    os.replace(tmp, evidence_path(prop))


def watched(plan, check):
    return any(check.startswith(w) for w in plan["watch"])


def check_hub_property(prop, tier, seed, replay_file=None):
    t0 = time.time()
    workdir = os.path.join(WORK, prop)
    shutil.rmtree(workdir, ignore_errors=True)
    os.makedirs(workdir)
    rc, coverage, nfresh = hub_run(prop, PROPS[prop], tier, seed, replay_file, workdir)
    write_evidence(prop, tier, seed, coverage, time.time() - t0, nfresh,
                   ["the Go harness drives the real app.Mhub2 through ABCI with really signed transactions; the projection reads state through exported keeper getters and raw store prefixes",
                    "amounts in replayed behaviours stay below 2^30 (TLC integers are 32 bit)",
                    "external chains are the specification's abstract event logs in this check, except the evm family (real Hub2 bytecode) and the minter family "
                    "(real connector functions against an executable model of the Minter multisig)"])
    return rc


def hub_run(prop, plan, tier, seed, replay_file, workdir):
    """design checks + generated / committed behaviours replayed on the real code + trace validation for one plan;
    returns (exit code, coverage record, number of fresh violations)"""
    dev = current_dev()
    vh, bt = build_harness()
    log("[%s] harness built in %.0fs; deviation switches (known findings) = %s" % (prop, bt, dev))

    mc_results = []
    cex_scripts = []
    scripts = []
    sim_stats = []
    if replay_file:
        for line in open(replay_file):
            if line.strip():
                scripts.append(json.loads(line))
    else:
        for spec in plan["mc"]:
            r = design_check(spec, workdir, tier, dev, watch_names(plan))
            mc_results.append(r)
            log("[%s] design check %s: %d distinct states, %d transitions, %.0fs, ok=%s" % (prop, spec["cfg"], r["states"], r["transitions"], r["wall"], r["ok"]))
            if not r["ok"]:
                if r.get("cex"):
                    # counterexample confirmation: only a failure reproduced on the real code is a verdict
                    log("[%s] the bounded model violates %s; replaying its counterexample (%d steps) on the real application" % (prop, r.get("invariant"), len(r["cex"]["acts"])))
                    cex_scripts.append(r["cex"])
                else:
                    raise Infra("the bounded model %s fails (%s) and no counterexample script could be extracted; see %s" % (spec["cfg"], r.get("invariant"), r.get("out")))
        for spec in plan.get("enum", []):
            s, r = enumerate_scripts(spec, workdir, tier, dev, seed)
            log("[%s] enumeration %s: %d distinct states, all %d maximal behaviours written, %d replayed (%.0fs)" % (prop, spec["cfg"], r["states"], r["behaviours_total"], r["behaviours_replayed"], r["wall"]))
            scripts += s
            mc_results.append(r)
        for spec in plan["sim"]:
            s, st = simulate_scripts(spec, workdir, tier, dev, seed, watch_names(plan))
            log("[%s] simulation %s: %d behaviours, %d states, %.0fs" % (prop, spec["cfg"], len(s), st["states"], st["wall"]))
            if st["model_violation"]:
                if st.get("cex"):
                    log("[%s] simulation of the bounded model violates %s; replaying its counterexample (%d steps) on the real application" % (prop, st["model_violation"], len(st["cex"]["acts"])))
                    cex_scripts.append(st["cex"])
                    mc_results.append(dict(ok=False, states=0, transitions=0, wall=0, cfg=spec["cfg"], out=st["out"]))
                else:
                    raise Infra("simulation of %s violates %s at model level; see %s" % (spec["cfg"], st["model_violation"], st["out"]))
            scripts += s
            sim_stats.append(st)
        scripts += load_static(plan.get("static", []))
        scripts += cex_scripts
    if not scripts:
        raise Infra("no behaviours to replay")

    trace, rt = replay(vh, scripts, workdir)
    tmod, tcfg = plan.get("trace", ("Trace.tla", "Trace.cfg"))
    rep = validate(trace, workdir, dev, module=tmod, cfgname=tcfg)
    log("[%s] replayed %d behaviours on the real application (%.0fs); TLC validated %d trace lines (%.0fs)" % (prop, len(scripts), rt, rep["lines"], rep["wall"]))

    # bulk scenarios (pools of hundreds of entries) are judged on a summary of every step (TraceBulk.tla)
    if plan.get("bulk") and not replay_file:
        bs = load_static(plan["bulk"])
        bsp = os.path.join(workdir, "bulk.scripts.ndjson")
        with open(bsp, "w") as f:
            for sc in bs:
                f.write(json.dumps(sc) + "\n")
        btp = os.path.join(workdir, "bulk.trace.ndjson")
        p, brt = run([vh, "run", "-scripts", bsp, "-out", btp, "-nopost"], 3000)
        if p.returncode != 0:
            sys.stdout.write(p.stdout.decode(errors="replace")[-2000:])
            raise Infra("harness run (bulk) failed")
        brep = validate(btp, workdir, dev, name="bulk", module="TraceBulk.tla", cfgname="TraceBulk.cfg")
        bst = brep["stat"]
        log("[%s] %d bulk scenarios: %d batches created, %d of them full (100 transfers), largest pool %d entries" % (prop, len(bs), bst["batches"], bst["full"], bst["biggestpool"]))
        if (bst["full"] < 1 or bst["biggestpool"] < 101) and not brep["viol"]:
            raise Infra("vacuous bulk run: no full batch / no pool above the batch size")
        rep["viol"] = list(rep["viol"]) + list(brep["viol"])
        scripts = scripts + bs

    # restart pass: a genesis export / import at a block boundary must not disturb the listed components (counters): the
    # behaviour continues on the original and on the restarted application and both are compared by TLC (Genesis.tla).
    # Exports that lose components of the recorded finding C15-export-omits-state are not judged after the loss.
    if plan.get("restart"):
        rs = [sc for sc in scripts if sc.get("family") == "econ"][:16]
        rsp = os.path.join(workdir, "restart.scripts.ndjson")
        with open(rsp, "w") as f:
            for sc in rs:
                f.write(json.dumps(sc) + "\n")
        rout = os.path.join(workdir, "restart.ndjson")
        p, rrt = run([vh, "genesis", "-scripts", rsp, "-out", rout, "-pick", str(seed)], 3000)
        if p.returncode != 0:
            sys.stdout.write(p.stdout.decode(errors="replace")[-2000:])
            raise Infra("harness genesis (restart pass) failed")
        grep = validate(rout, workdir, dev, name="restart", module="Genesis.tla", cfgname="Genesis.cfg")
        gst = grep["stat"]
        known_lost = set()
        for k in known_findings()["findings"]:
            if k["property"] == "C15" and k["status"] == "known":
                known_lost |= {c[1] for c in k["checks"] if c[0] == "C15:Lost"}
        lost = collections.defaultdict(set)
        for v in grep["viol"]:
            if v[3] == "C15:Lost":
                lost[(v[0], v[1])].add(v[4].split(":")[0])
        rv = []
        for v in grep["viol"]:
            comp = v[4].split(":")[0]
            if comp not in plan["restart"]:
                continue
            if v[3] == "C15:ContinuationDiverged" and lost[(v[0], v[1])]:
                continue          # after a lossy export the two applications legitimately differ (recorded under C15)
            rv.append((v[0], v[1], prop + ":RestartKeeps", v[4]))
        log("[%s] restart pass: %d export/import round trips, %d continuation steps compared for %s" % (prop, gst["roundtrips"], gst["conts"], plan["restart"]))
        if gst["roundtrips"] < 5 and not replay_file:
            raise Infra("vacuous restart pass")
        rep["viol"] = list(rep["viol"]) + rv

    # anti-vacuity
    cov = rep["cov"]
    if not replay_file:
        for k, n in plan.get("need", {}).items():
            if cov.get(k, 0) < n:
                raise Infra("vacuous run: step kind %s seen %d times, need %d" % (k, cov.get(k, 0), n))

    viols = [v for v in rep["viol"] if watched(plan, v[2])]
    fresh, known = [], collections.OrderedDict()
    for v in viols:
        k = match_known(prop, v[2], v[3])
        if k:
            known.setdefault(k["id"], [k, 0])[1] += 1
        else:
            fresh.append(v)
    for kid, (k, n) in known.items():
        log("KNOWN-FINDING: property=%s %s (%s; hit %d times in this run)" % (prop, k["what"], kid, n))

    if cex_scripts and not fresh:
        raise Infra("the bounded model has a counterexample that the real application does not reproduce: the specification "
                    "(or its deviation set) is wrong, not the code; see %s" % [r.get("out") for r in mc_results if not r["ok"]])
    rc = 0
    rdir = os.path.join(ROOT, "evidence", "replay")
    if fresh:
        os.makedirs(rdir, exist_ok=True)
        first = fresh[0]
        s = script_of(scripts, first[0])
        path = os.path.join(rdir, "%s-%s.ndjson" % (prop, re.sub(r"[^A-Za-z0-9_.-]", "_", first[0])))
        with open(path, "w") as f:
            f.write(json.dumps(s) + "\n")
        byname = collections.Counter((v[2], v[3]) for v in fresh)
        for (c, d), n in byname.most_common(8):
            log("  failed check %s [%s] on %d steps" % (c, d, n))
        log("  first: behaviour %s step %d: %s" % (first[0], first[1], json.dumps(s["acts"][first[1] - 1]) if s and 1 <= first[1] <= len(s["acts"]) else "?"))
        log("VIOLATION property=%s replay=%s" % (prop, path))
        rc = 1

    samples = [dict(id=s["id"], acts=s["acts"][:12]) for s in scripts[:2]]
    kinds = collections.Counter()
    for s in scripts:
        for a in s["acts"]:
            kinds[a.get("k", "?")] += 1
    coverage = dict(
        states=sum(r["states"] for r in mc_results) or rep.get("tlc_states", 1) or 1,
        transitions=sum(r["transitions"] for r in mc_results) or rep["lines"] or 1,
        traces_validated_against_impl=rep["traces"],
        samples=samples,
        trace_steps_validated=rep["lines"],
        step_outcomes=cov,
        distinct_nontrivial=len(cov),
        rule="behaviours = TLC simulation of the bounded model (seeded) + committed regression scripts, each replayed on the real "
             "application; a step kind/outcome class (e.g. Cancel/err) counts once in distinct_nontrivial",
        design_checks=[dict(cfg=r["cfg"], distinct_states=r["states"], transitions=r["transitions"], wall_s=round(r["wall"], 1), constants=r.get("constants")) for r in mc_results],
        simulation=[dict(behaviours=s["behaviours"], states=s["states"]) for s in sim_stats],
        checks_watched=plan["watch"],
        known_findings_hit={k: n for k, (_, n) in known.items()},
        deviation_switches=dev,
        exhaustive=False,
    )
    return rc, coverage, len(fresh)


# ------------------------------------------------------------------------------------------- C14 claim identifiers
CLAIM_FIELDS = {  # Go struct field -> specification field, per event type; None = no effect when applied (not part of the claim)
    "Deposit": {"EventNonce": "n", "ExternalCoinId": "tok", "Amount": "amt", "Fee": "fee", "Sender": "snd", "ReceiverChainId": "rch",
                "ExternalReceiver": "rcv", "ExternalHeight": "eh", "TxHash": "txh"},
    "ToHub": {"EventNonce": "n", "ExternalCoinId": "tok", "Amount": "amt", "Sender": "snd", "CosmosReceiver": "rcv", "ExternalHeight": "eh", "TxHash": "txh"},
    "Exec": {"ExternalCoinId": "tok", "EventNonce": "n", "ExternalHeight": "eh", "BatchNonce": "bn", "TxHash": "txh", "FeePaid": "fp", "FeePayer": "fpr"},
    "SSExec": {"EventNonce": "n", "SignerSetTxNonce": "ssn", "ExternalHeight": "eh", "Members": "m", "TxHash": "txh"},
    "CCExec": {"EventNonce": "n", "InvalidationScope": "scope", "InvalidationNonce": "in", "ReturnData": None, "ExternalHeight": "eh", "TxHash": "txh"},
}


def check_c14(prop, tier, seed, replay_file=None):
    t0 = time.time()
    workdir = os.path.join(WORK, prop)
    shutil.rmtree(workdir, ignore_errors=True)
    os.makedirs(workdir)
    dev = current_dev()
    vh, bt = build_harness()
    pairs_file = os.path.join(workdir, "pairs.json")
    dst = os.path.join(workdir, "ClaimId.cfg")
    tlc_cfg(os.path.join(SPEC, "ClaimId.cfg"), dst, {"Dev": dev_value([d for d in dev if d == "HashOmitsFields"])})
    rc, txt, dt, out = tlc("ClaimId.tla", dst, workdir, 300, env={"VERIF_OUT": pairs_file}, workers="1")
    gen, dist = parse_counts(txt)
    if "No error has been found" not in txt or not os.path.exists(pairs_file):
        raise Infra("ClaimId design check failed, see " + out)
    log("[%s] ClaimId.tla: %d pairs enumerated, identifiers distinct on the specification (%.0fs)" % (prop, dist, dt))
    # non-vacuity: with the deviation switched on the specification itself must merge some pairs
    dst2 = os.path.join(workdir, "ClaimIdDev.cfg")
    tlc_cfg(os.path.join(SPEC, "ClaimId.cfg"), dst2, {"Dev": '{"HashOmitsFields"}'})
    rc2, txt2, dt2, out2 = tlc("ClaimId.tla", dst2, workdir, 300, workers="1")
    if "DistinctIds is violated" not in txt2 and "HashOmitsFields" not in dev:
        raise Infra("ClaimId.tla does not distinguish the deviating identifier: vacuous")
    if replay_file:
        pairs_file = replay_file
    res_file = os.path.join(workdir, "result.json")
    p, rt = run([vh, "claimid", "-pairs", pairs_file, "-out", res_file], 900)
    if p.returncode != 0:
        sys.stdout.write(p.stdout.decode(errors="replace")[-2000:])
        raise Infra("harness claimid failed")
    res = json.load(open(res_file))
    # every struct field of every event type must be known to the specification
    for t, fl in res["structs"].items():
        for f in fl:
            if f not in CLAIM_FIELDS[t]:
                raise Infra("event type %s has a field %s the specification (ClaimId.tla) does not classify" % (t, f))
    pairs = json.load(open(pairs_file))
    fresh, known = [], collections.OrderedDict()
    for r in res["pairs"]:
        pr = pairs[r["i"]]
        if pr["a"] == pr["b"]:
            continue
        bad = r["hash_equal"] or r["tallied_together"]
        if pr["kind"] == "field" and pr["field"] == "n":
            bad = r["tallied_together"]
        if not bad:
            continue
        k = match_known(prop, "C14:TalliedTogether", "%s.%s" % (r["t"], r["field"]))
        if k:
            known.setdefault(k["id"], [k, 0])[1] += 1
        else:
            fresh.append((r, pr))
    for kid, (k, n) in known.items():
        log("KNOWN-FINDING: property=%s %s (%s; hit %d times in this run)" % (prop, k["what"], kid, n))
    rc = 0
    if fresh:
        rdir = os.path.join(ROOT, "evidence", "replay")
        os.makedirs(rdir, exist_ok=True)
        path = os.path.join(rdir, "%s-pairs.json" % prop)
        json.dump([pr for _, pr in fresh], open(path, "w"))
        for r, pr in fresh[:8]:
            log("  events of type %s differing in %s (%s) have the same claim hash / were tallied together" % (r["t"], r["field"], pr["kind"]))
        log("VIOLATION property=%s replay=%s" % (prop, path))
        rc = 1
    coverage = dict(states=dist, transitions=gen, traces_validated_against_impl=len(res["pairs"]),
                    samples=[pairs[0], pairs[-1]], pairs=len(pairs),
                    pair_kinds=dict(collections.Counter(p["kind"] for p in pairs)),
                    exhaustive=True, struct_fields=res["structs"], known_findings_hit={k: n for k, (_, n) in known.items()},
                    rule="one model state per pair of events of the same type that differ in exactly one effect-relevant field or by a shift "
                         "across a field boundary; each pair is hashed by the real Hash() and submitted through two validators of the real application")
    write_evidence(prop, tier, seed, coverage, time.time() - t0, len(fresh),
                   ["field domains have two values per field; sha256 is treated as injective",
                    "the list of effect-relevant fields is read off ExternalEventProcessor.Handle; the Go struct fields are cross-checked at run time"])
    return rc


# ------------------------------------------------------------------------------------------- C20 Minter connector
def check_c20(prop, tier, seed, replay_file=None):
    import random
    t0 = time.time()
    workdir = os.path.join(WORK, prop)
    shutil.rmtree(workdir, ignore_errors=True)
    os.makedirs(workdir)
    dev = [d for d in current_dev() if d in ("ResyncMidBlock", "CommandNegativeFee")]
    vh, bt = build_harness()
    outdir = os.path.join(workdir, "vectors")
    os.makedirs(outdir)
    dst = os.path.join(workdir, "Connector.cfg")
    subst = {"Dev": dev_value(dev)}
    # thorough: one block more, over the three classes that move the cursors differently (4 classes x 3 blocks x 2 txs: 9 724 histories,
    # whose vectors TLC does not write out within an hour)
    subst.update({"MaxBlocks": "2", "MaxTx": "2"} if tier == "quick" else {"MaxBlocks": "3", "MaxTx": "2", "Kinds": '{"D", "I", "B"}'})
    tlc_cfg(os.path.join(SPEC, "Connector.cfg"), dst, subst)
    rc, txt, dt, out = tlc("Connector.tla", dst, workdir, 3000, env={"VERIF_OUT": outdir, "JAVA_TOOL_OPTIONS": "-Xmx8g -Xss64m"}, workers="8")
    gen, dist = parse_counts(txt)
    if "No error has been found" not in txt:
        raise Infra("Connector design check failed, see " + out)
    log("[%s] Connector.tla: %d distinct states, %d transitions, CursorConsistent holds over all histories / restart points / acknowledged nonces (%.0fs)" % (prop, dist, gen, dt))
    vectors = json.load(open(os.path.join(outdir, "vectors.json")))
    cases = json.load(open(os.path.join(outdir, "commands.json")))
    if replay_file and replay_file.endswith(".ndjson"):
        vectors, cases = vectors[:50], cases[:50]      # a replay of a loop behaviour: the vector part is only smoke-tested
    elif replay_file:
        rp = json.load(open(replay_file))
        vectors = rp.get("vectors", [])
        cases = rp.get("commands", [])
    elif tier == "quick" and len(vectors) > 8000:
        random.Random(seed).shuffle(vectors)
        vectors = vectors[:8000]
    vf = os.path.join(workdir, "vectors.run.json")
    json.dump(vectors, open(vf, "w"))
    rf = os.path.join(workdir, "vectors.res.json")
    p, rt = run([vh, "connector", "-vectors", vf, "-out", rf], 3000)
    if p.returncode != 0:
        sys.stdout.write(p.stdout.decode(errors="replace")[-2000:])
        raise Infra("harness connector failed")
    res = json.load(open(rf))
    bad_v = []
    stops = 0
    for v, r in zip(vectors, res):
        w = v["want"]
        d = r["disk"]
        if w["blk"] < v["head"]:
            stops += 1
        if "panic" in r or (d["blk"], d["ev"], d["bat"]) != (w["blk"], w["ev"], w["bat"]):
            bad_v.append((v, r))
    # command grid
    def concrete(c):
        rcp = {"hex": "0x" + "ab" * 20, "bech32": "@bech32", "garbage": "xyz"}[c["rcp"]]
        fee = {"int": str(c["fee"]), "empty": "", "decimal": "1.5", "exp": "1e3", "space": " 5"}[c["feeclass"]]
        return {"type": c["type"], "recipient": rcp, "fee": fee, "amount": str(c["amount"])}
    cf = os.path.join(workdir, "commands.run.json")
    json.dump([concrete(c) for c in cases], open(cf, "w"))
    crf = os.path.join(workdir, "commands.res.json")
    p, rt2 = run([vh, "command", "-cases", cf, "-out", crf], 600)
    if p.returncode != 0:
        sys.stdout.write(p.stdout.decode(errors="replace")[-2000:])
        raise Infra("harness command failed")
    cres = json.load(open(crf))
    bad_c = [(c, r) for c, r in zip(cases, cres) if "panic" in r or bool(r.get("ok")) != bool(c["want"])]
    log("[%s] replayed %d resync vectors (%d stop before the head) and %d command cases on the real connector code" % (prop, len(vectors), stops, len(cases)))
    if not replay_file and (stops < 10 or sum(1 for c in cases if c["want"]) < 10):
        raise Infra("vacuous run")
    fresh, known = [], collections.OrderedDict()
    for kind, lst in (("C20:CursorConsistent", bad_v), ("C20:CommandValid", bad_c)):
        for item in lst:
            detail = "mid-block" if kind == "C20:CursorConsistent" else ("negative-fee" if item[0]["feeclass"] == "int" and item[0]["fee"] < 0 else "other")
            k = match_known(prop, kind, detail)
            if k:
                known.setdefault(k["id"], [k, 0])[1] += 1
            else:
                fresh.append((kind, detail, item))
    for kid, (k, n) in known.items():
        log("KNOWN-FINDING: property=%s %s (%s; hit %d times in this run)" % (prop, k["what"], kid, n))
    rc = 0
    if fresh:
        rdir = os.path.join(ROOT, "evidence", "replay")
        os.makedirs(rdir, exist_ok=True)
        path = os.path.join(rdir, "%s-vectors.json" % prop)
        json.dump({"vectors": [i[0] for k, d, i in fresh if k == "C20:CursorConsistent"][:50],
                   "commands": [i[0] for k, d, i in fresh if k == "C20:CommandValid"][:50]}, open(path, "w"))
        for k, d, i in fresh[:6]:
            log("  %s [%s]: %s -> %s" % (k, d, json.dumps(i[0])[:200], json.dumps(i[1])[:120]))
        log("VIOLATION property=%s replay=%s" % (prop, path))
        rc = 1
    # the whole loop: real relayMinterEvents / restart of three connectors against the real hub and the Minter chain model
    loop_cov, lfresh = None, 0
    if not replay_file or replay_file.endswith(".ndjson"):
        lw = os.path.join(workdir, "loop")
        os.makedirs(lw, exist_ok=True)
        lrc, loop_cov, lfresh = hub_run(prop, MINTER_LOOP, tier, seed, replay_file if replay_file and replay_file.endswith(".ndjson") else None, lw)
        if lrc:
            rc = 1
    coverage = dict(states=dist, transitions=gen, traces_validated_against_impl=len(vectors) + len(cases),
                    minter_loop=loop_cov,
                    samples=[vectors[0], vectors[len(vectors) // 2], cases[0]], resync_vectors=len(vectors), resync_vectors_stopping_before_head=stops,
                    command_cases=len(cases), command_cases_valid=sum(1 for c in cases if c["want"]),
                    constants=subst, exhaustive=(tier != "quick" or len(vectors) < 8000),
                    known_findings_hit={k: n for k, (_, n) in known.items()},
                    rule="every block history of the bounded model x every consistent cursor x every head x every acknowledged nonce is run through the real "
                         "LoadStatus + GetLatestMinterBlockAndNonce against a scripted Minter API (loopback HTTP) and the status file compared with the specification's Resync; "
                         "every command class x fee x amount through the real ValidateAndComplete")
    write_evidence(prop, tier, seed, coverage, time.time() - t0, len(fresh) + lfresh,
                   ["relayMinterEvents / relayBatches / relayValsets are bound through a generated copy of main.go (package clause changed, nothing else)",
                    "the Minter node is an executable model (harness/mnt): block API, multisig acceptance rule nonce = count + 1 and weights >= threshold"])
    return rc


# ------------------------------------------------------------------------------------------- C06 determinism
def check_c06(prop, tier, seed, replay_file=None):
    t0 = time.time()
    workdir = os.path.join(WORK, prop)
    shutil.rmtree(workdir, ignore_errors=True)
    os.makedirs(workdir)
    dev = current_dev()
    vh, bt = build_harness()
    dst = os.path.join(workdir, "Replicas.cfg")
    tlc_cfg(os.path.join(SPEC, "Replicas.cfg"), dst, {"R": "3" if tier == "quick" else "4", "MaxLog": "3" if tier == "quick" else "4"})
    rc, txt, dt, out = tlc("Replicas.tla", dst, workdir, 600)
    gen, dist = parse_counts(txt)
    if "No error has been found" not in txt:
        raise Infra("Replicas design check failed, see " + out)
    scripts = []
    if replay_file:
        scripts = [json.loads(l) for l in open(replay_file) if l.strip()]
    else:
        for spec in (ECON_SIM, ECON2_SIM, FEES_SIM, ORACLE_SIM, VALSET_SIM):
            sp = dict(spec)
            sp["num"] = (12, 60)
            s, st = simulate_scripts(sp, workdir, tier, dev, seed)
            log("[%s] simulation %s: %d behaviours" % (prop, spec["cfg"], len(s)))
            scripts += s
        scripts += load_static(["econ*.ndjson", "fees*.ndjson", "valset*.ndjson", "attest*.ndjson", "gov*.ndjson", "oracle*.ndjson"])
    sp = os.path.join(workdir, "scripts.ndjson")
    with open(sp, "w") as f:
        for sc in scripts:
            f.write(json.dumps(sc) + "\n")
    reps = 3 if tier == "quick" else 5
    obs = os.path.join(workdir, "obs.ndjson")
    p, rt = run([vh, "replicas", "-scripts", sp, "-out", obs, "-r", str(reps)], 3000)
    if p.returncode != 0:
        sys.stdout.write(p.stdout.decode(errors="replace")[-2000:])
        raise Infra("harness replicas failed")
    # a second OS process: observations must be byte-identical to the first process's
    obs2 = os.path.join(workdir, "obs2.ndjson")
    p, rt2 = run([vh, "replicas", "-scripts", sp, "-out", obs2, "-r", "1" if tier == "quick" else "2"], 3000)
    if p.returncode != 0:
        raise Infra("harness replicas (second process) failed")
    first = {}
    for l in open(obs):
        j = json.loads(l)
        first[(j["id"], j["i"])] = j
    merged = os.path.join(workdir, "merged.ndjson")
    with open(merged, "w") as f:
        for l in open(obs2):
            j = json.loads(l)
            k = (j["id"], j["i"])
            if k in first:
                first[k]["obs"] = first[k]["obs"] + j["obs"]
        for k in first:
            f.write(json.dumps(first[k]) + "\n")
    rep = validate(merged, workdir, dev, name="replicas", module="TraceReplicas.tla", cfgname="TraceReplicas.cfg")
    log("[%s] %d behaviours x %d replicas in-process + a second OS process; TLC compared %d step observations (%d block ends)" % (prop, len(scripts), reps, rep["stat"]["steps"], rep["stat"]["ends"]))
    if not replay_file and rep["stat"]["ends"] < 50:
        raise Infra("vacuous run")
    rc = 0
    if rep["viol"]:
        rdir = os.path.join(ROOT, "evidence", "replay")
        os.makedirs(rdir, exist_ok=True)
        v = sorted(rep["viol"], key=lambda x: (x[0], x[1]))[0]
        path = os.path.join(rdir, "%s-%s.ndjson" % (prop, re.sub(r"[^A-Za-z0-9_.-]", "_", v[0])))
        with open(path, "w") as f:
            f.write(json.dumps(script_of(scripts, v[0])) + "\n")
        log("  replicas disagree first at behaviour %s step %d (%s); %d disagreeing steps" % (v[0], v[1], v[3], len(rep["viol"])))
        log("VIOLATION property=%s replay=%s" % (prop, path))
        rc = 1
    coverage = dict(states=dist, transitions=gen, traces_validated_against_impl=len(scripts),
                    samples=[dict(id=s["id"], acts=s["acts"][:8]) for s in scripts[:2]],
                    replicas_in_process=reps, second_process_replicas=rep["stat"]["replicas"] - reps,
                    steps_compared=rep["stat"]["steps"], block_ends_compared=rep["stat"]["ends"], exhaustive=False,
                    rule="TLC-generated behaviours of the econ / fees / oracle / valset families (several tokens in the pool at auto-batch blocks, several chains with "
                         "pending events, conflicting holder lists) each executed on fresh replicas; per step the result, app hash, hash of all ABCI responses and a raw digest "
                         "of the mhub2, oracle and bank stores must agree")
    write_evidence(prop, tier, seed, coverage, time.time() - t0, len(rep["viol"]),
                   ["Go map iteration order is randomised per range statement, so replicas in one process exercise different orders; scheduling nondeterminism of goroutines is not forced"])
    return rc


# ------------------------------------------------------------------------------------------- C15 genesis round trip
def check_c15(prop, tier, seed, replay_file=None):
    t0 = time.time()
    workdir = os.path.join(WORK, prop)
    shutil.rmtree(workdir, ignore_errors=True)
    os.makedirs(workdir)
    dev = current_dev()
    vh, bt = build_harness()
    scripts = []
    if replay_file:
        scripts = [json.loads(l) for l in open(replay_file) if l.strip()]
    else:
        for spec in (ECON_SIM, FEES_SIM, ORACLE_SIM, VALSET_SIM, ATTEST_SIM):
            sp = dict(spec)
            sp["num"] = (10, 24)     # thorough: every third block boundary of every behaviour is exported (TLC consumes ~40 round trips a minute)
            s, st = simulate_scripts(sp, workdir, tier, dev, seed)
            scripts += s
        scripts += load_static(["econ_basic.ndjson", "valset_rereg.ndjson", "fees*.ndjson", "genesis*.ndjson"])
    sp = os.path.join(workdir, "scripts.ndjson")
    with open(sp, "w") as f:
        for sc in scripts:
            f.write(json.dumps(sc) + "\n")
    out = os.path.join(workdir, "genesis.ndjson")
    cmd = [vh, "genesis", "-scripts", sp, "-out", out] + (["-pick", str(seed)] if tier == "quick" else ["-every", "3"])
    p, rt = run(cmd, 3000)
    if p.returncode != 0:
        sys.stdout.write(p.stdout.decode(errors="replace")[-2000:])
        raise Infra("harness genesis failed")
    rep = validate(out, workdir, dev, name="genesis", module="Genesis.tla", cfgname="Genesis.cfg")
    st = rep["stat"]
    log("[%s] %d export/import round trips (%d with pending transfers, batches, votes or signatures), %d continuation steps compared" % (prop, st["roundtrips"], st["nonempty"], st["conts"]))
    if not replay_file and (st["roundtrips"] < 10 or st["nonempty"] < 3 or st["conts"] < 50):
        raise Infra("vacuous run")
    known_comp = {}
    for k in known_findings()["findings"]:
        if k["property"] == prop and k["status"] == "known":
            for c in k["checks"]:
                if c[0] == "C15:Lost":
                    known_comp[c[1]] = k
    lost = collections.defaultdict(set)      # (id, boundary) -> lost components
    for v in rep["viol"]:
        if v[3] == "C15:Lost":
            lost[(v[0], v[1])].add(v[4].split(":")[0])
    fresh, hits = [], collections.Counter()
    for v in rep["viol"]:
        comp = v[4].split(":")[0]
        key = (v[0], v[1])
        if v[3] == "C15:Lost":
            if comp in known_comp:
                hits[known_comp[comp]["id"]] += 1
            else:
                fresh.append(v)
        elif v[3] == "C15:ContinuationDiverged":
            # a divergence after an export that lost only known components is the consequence of the known finding
            if lost[key] and lost[key] <= set(known_comp):
                hits["(continuations after a lossy export)"] += 1
            else:
                fresh.append(v)
        else:
            fresh.append(v)
    for k in known_findings()["findings"]:
        if k["property"] == prop and k["status"] == "known" and hits.get(k["id"]):
            log("KNOWN-FINDING: property=%s %s (%s; hit %d times in this run)" % (prop, k["what"], k["id"], hits[k["id"]]))
    rc = 0
    if fresh:
        rdir = os.path.join(ROOT, "evidence", "replay")
        os.makedirs(rdir, exist_ok=True)
        v = fresh[0]
        path = os.path.join(rdir, "%s-%s.ndjson" % (prop, re.sub(r"[^A-Za-z0-9_.-]", "_", v[0])))
        with open(path, "w") as f:
            f.write(json.dumps(script_of(scripts, v[0])) + "\n")
        for (c, d), n in collections.Counter((v[3], v[4]) for v in fresh).most_common(8):
            log("  %s [%s] x%d" % (c, d, n))
        log("VIOLATION property=%s replay=%s" % (prop, path))
        rc = 1
    coverage = dict(states=rep["tlc_states"] or 1, transitions=rep["lines"] or 1, traces_validated_against_impl=st["roundtrips"],
                    samples=[dict(id=s["id"], acts=s["acts"][:8]) for s in scripts[:2]],
                    roundtrips=st["roundtrips"], roundtrips_with_pending_state=st["nonempty"], continuation_steps=st["conts"],
                    components_compared=["pool", "bat", "ss", "cc", "loss", "votes", "lnv", "sigs", "keys", "cnt.*", "bal", "sup", "st", "fr", "tok", "stk", "tot", "or.*"],
                    known_components_lost=sorted(known_comp), known_findings_hit=dict(hits), exhaustive=False,
                    rule="TLC-generated behaviours; at a block boundary the real ExportAppStateAndValidators output is fed to InitChain of a fresh application; the projected "
                         "state is compared component by component, then the rest of the behaviour runs on both applications and is compared after every step")
    write_evidence(prop, tier, seed, coverage, time.time() - t0, len(fresh),
                   ["the abstract state (projection) is what 'everything needed to continue' is measured by"])
    return rc


# ------------------------------------------------------------------------------------------- C05 totality of block processing
P255 = str(2 ** 255)
MAX256 = str(2 ** 256 - 1)


def c05_script(i, c, cfgs):
    """a minimal history that gets the input class combination applied inside a block"""
    VAL = {"zero": "0", "one": "1", "small": "50", "p255": P255, "max256": MAX256, "neg": "-5", "above": "60", "hundred": "100",
           "big": "1000000000000000000000", "some": "7"}
    chain = c["chain"]
    hubtok = "t1" if chain == "ethereum" else "1"
    usdtok = "t4" if chain == "ethereum" else "12"
    tokmap = {"known": hubtok, "known2": usdtok, "unknown": "tX" if chain == "ethereum" else "99", "prefix": "tY" if chain == "ethereum" else "120"}

    def claims(ev):
        return [{"k": "Claim", "by": v, "chain": chain, "ev": ev} for v in ("v1", "v2", "v3")]
    acts = [{"k": "Begin", "dt": 1}]
    cfg = cfgs[c.get("world", "plain")]
    t = c["t"]
    if t == "Deposit":
        rcv = {"ext": "e8", "hubacct": "a3", "noprefix": "raw:" + "ab" * 20}[c["rcv"]]
        ev = {"t": "Deposit", "n": 1, "tok": tokmap[c["tok"]], "amt": VAL[c["amt"]], "fee": VAL[c["fee"]], "snd": "e7", "rch": c["rch"], "rcv": rcv, "eh": 2, "txh": "x1"}
        acts += claims(ev)
    elif t == "ToHub":
        ev = {"t": "ToHub", "n": 1, "tok": tokmap[c["tok"]], "amt": VAL[c["amt"]], "snd": "e7", "rcv": {"hubacct": "a3", "module": "mod", "tmp": "tmp"}[c["rcv"]], "eh": 2, "txh": "x1"}
        acts += claims(ev)
    elif t == "Exec":
        d = {"t": "Deposit", "n": 1, "tok": hubtok, "amt": "40", "fee": "0", "snd": "e7", "rch": "hub", "rcv": "a3", "eh": 2, "txh": "x1"}
        denom = "hub" if c["tok"] == "known" else "usd"
        acts += claims(d) + [{"k": "End"}, {"k": "Begin", "dt": 1},
                             {"k": "Send", "from": "a1", "chain": chain, "dest": "e5", "denom": denom, "amt": VAL[c["sendamt"]], "fee": VAL[c["sendfee"]]},
                             {"k": "ReqBatch", "from": "a1", "chain": chain, "denom": denom}, {"k": "End"}, {"k": "Begin", "dt": 1}]
        ev = {"t": "Exec", "n": 2, "tok": tokmap[c["tok"]], "bn": 1 if c["batch"] == "existing" else 7, "eh": 3, "txh": "x2", "fp": VAL[c["fp"]]}
        if c["fpr"] == "ext":
            ev["fpr"] = "e9"
        acts += claims(ev)
    elif t == "SSExec":
        m = {"empty": [], "one": [["e1", [1, 0]]], "dup": [["e1", [1, 0]], ["e1", [2, 0]]], "hugepower": [["e1", "18446744073709551615"], ["e2", "18446744073709551615"]]}[c["members"]]
        acts += claims({"t": "SSExec", "n": 1, "ssn": 1, "eh": 2, "m": m, "txh": "x1"})
    elif t == "CCExec":
        acts += claims({"t": "CCExec", "n": 1, "scope": "scope", "in": 1, "eh": 2, "txh": "x1"})
    elif t == "Send":
        acts += [{"k": "Send", "from": "a1", "chain": chain, "dest": "e5", "denom": "hub", "amt": VAL[c["amt"]], "fee": VAL[c["fee"]]},
                 {"k": "ReqBatch", "from": "a1", "chain": chain, "denom": "hub"}]
    elif t == "Pair":
        # deposits on `chain` forwarded to the other chain; same=True: both applied in one block, else in consecutive blocks
        dest = "minter" if chain == "ethereum" else "ethereum"
        desttok = "1" if dest == "minter" else "t1"
        amt = {"p255plus": str(2 ** 255 + 2 ** 255 // 50), "small": "5000"}[c["amt"]]
        fee = VAL[c["fee"]]
        if c["prior"]:
            acts += [{"k": "Send", "from": "a1", "chain": dest, "dest": "e5", "denom": "hub", "amt": "100", "fee": "1"}, {"k": "End"},
                     {"k": "Begin", "dt": 1}, {"k": "End"}, {"k": "Begin", "dt": 1}]
        d1 = {"t": "Deposit", "n": 1, "tok": hubtok, "amt": amt, "fee": fee, "snd": "e7", "rch": dest, "rcv": "e8", "eh": 2, "txh": "x1"}
        d2 = dict(d1, n=2, eh=3, txh="x2")
        acts += claims(d1)
        if not c["same"]:
            acts += [{"k": "End"}, {"k": "Begin", "dt": 1}]
        acts += claims(d2)
        acts += [{"k": "End"}, {"k": "Begin", "dt": 1}, {"k": "End"}, {"k": "Begin", "dt": 1}, {"k": "End"}, {"k": "Begin", "dt": 1}]
        if c["exec"]:
            for bn in (1, 2):
                ev = {"t": "Exec", "n": bn, "tok": desttok, "bn": bn, "eh": 3 + bn, "txh": "x%d" % (7 + bn), "fp": "1", "fpr": "e9"}
                acts += [{"k": "Claim", "by": v, "chain": dest, "ev": ev} for v in ("v1", "v2", "v3")]
    elif t == "RPair":
        big = c["amt"] == "p255"
        H = str(2 ** 255 + 2 ** 255 // 50) if big else "5100"
        X = str(2 ** 255) if big else "5000"
        send = {"k": "Send", "from": "a3" if c["both"] else "a2", "chain": chain, "dest": "e5", "denom": "hub", "amt": X, "fee": "0"}
        for n in (1, 2):
            rcv = "a3" if (c["both"] or n == 1) else "a2"
            acts += claims({"t": "ToHub", "n": n, "tok": hubtok, "amt": H, "snd": "e7", "rcv": rcv, "eh": 1 + n, "txh": "x%d" % n})
            acts += [{"k": "End"}, {"k": "Begin", "dt": 1}, dict(send, **{"from": rcv}), {"k": "End"}, {"k": "Begin", "dt": 1}]
        acts += [{"k": "End"}, {"k": "Begin", "dt": 1}, {"k": "End"}, {"k": "Begin", "dt": 1}, {"k": "End"}, {"k": "Begin", "dt": 200}]
        acts += claims({"t": "ToHub", "n": 3, "tok": hubtok, "amt": "40", "snd": "e7", "rcv": "a1", "eh": 5000, "txh": "x3"})
        acts += [{"k": "End"}, {"k": "Begin", "dt": 1}, {"k": "End"}, {"k": "Begin", "dt": 1}]
    elif t == "OPrice":
        # the largest value a claim can carry (316 bits with 18 decimals), the smallest positive one, and 1
        val = {"one": "1", "maxdec": "13" + "0" * 76, "tiny": "0.000000000000000001"}[c["val"]]
        pr = {k: val for k in ("eth", "ethereum/gas", "bnb", "bsc/gas", "hub", "usd")}
        acts += [{"k": "Price", "by": v, "ep": 1, "pr": pr} for v in ("v1", "v2", "v3")[:c["voters"]]]
        acts += [{"k": "End"}, {"k": "Blocks", "n": 4}, {"k": "Begin", "dt": 1}]
    elif t == "OHold":
        first = {"nolist": {"list": [], "nolist": True}, "empty": {"list": []}, "huge": {"list": [["e5", MAX256]]}, "ordinary": {"list": [["e5", 3]]}}[c["shape"]]
        for k, v in enumerate(("v1", "v2", "v3")[:c["voters"]]):
            acts.append(dict({"k": "Holders", "by": v, "ep": 1}, **(first if k == 0 else {"list": [["e5", 3]]})))
        acts += [{"k": "End"}, {"k": "Blocks", "n": 4}, {"k": "Begin", "dt": 1}]
    acts += [{"k": "End"}, {"k": "Blocks", "n": 2}]
    return {"id": "tot-%d" % i, "family": "totality", "cfg": cfg, "acts": acts}


def check_c05(prop, tier, seed, replay_file=None):
    import random
    t0 = time.time()
    workdir = os.path.join(WORK, prop)
    shutil.rmtree(workdir, ignore_errors=True)
    os.makedirs(workdir)
    dev = current_dev()
    vh, bt = build_harness()
    # 1. the iterator lock protocol: no dead-lock for the module's iteration pattern, for every pool size / expiry count around the channel capacity
    pattern = "nested" if "RefundSweepNestedIter" in dev else "collect"
    si_states = 0
    si_runs = []
    for B in (1, 2) if tier == "quick" else (1, 2, 3):
        for N in range(0, B + 5):
            for E in range(0, min(N, 4) + 1):
                cfgp = os.path.join(workdir, "StoreIter-%d-%d-%d.cfg" % (B, N, E))
                open(cfgp, "w").write("SPECIFICATION Spec\nCONSTANTS\n  B = %d\n  N = %d\n  E = %d\n  Pattern = \"%s\"\nPROPERTY Terminates\n" % (B, N, E, pattern))
                rc, txt, dt, out = tlc("StoreIter.tla", cfgp, workdir, 120, workers="1")
                g, d = parse_counts(txt)
                si_states += d
                if "No error has been found" not in txt:
                    raise Infra("StoreIter: the %s pattern can dead-lock (B=%d N=%d E=%d) although the code is believed to use it safely; see %s" % (pattern, B, N, E, out))
                si_runs.append((B, N, E))
    log("[%s] StoreIter.tla: pattern '%s' terminates for %d (capacity, entries, expired) configurations, %d states" % (prop, pattern, len(si_runs), si_states))
    # 2. input class enumeration
    cases_file = os.path.join(workdir, "cases.json")
    rc, txt, dt, out = tlc("Totality.tla", os.path.join(SPEC, "Totality.cfg"), workdir, 600, env={"VERIF_OUT": cases_file}, workers="2")
    gen, dist = parse_counts(txt)
    if "No error has been found" not in txt or not os.path.exists(cases_file):
        raise Infra("Totality enumeration failed, see " + out)
    cases = json.load(open(cases_file))
    base = json.load(open(os.path.join(ROOT, "scripts", "cfg_keys_prices.json")))
    base["users"]["a1"]["hub"] = "1000000000000000000000000"
    plain = dict(base); plain.pop("keys", None); plain.pop("prices", None)
    keys = dict(base); keys.pop("prices", None)
    cfgs = {"plain": plain, "keys+prices": base, "keys": keys}
    idx = list(range(len(cases)))
    if replay_file:
        scripts = [json.loads(l) for l in open(replay_file) if l.strip()]
    else:
        if tier == "quick":
            random.Random(seed).shuffle(idx)
            # the pair cases (sums over several huge values) are few and always run
            idx = sorted(set(idx[:900]) | {i for i in range(len(cases)) if cases[i]["t"] in ("Pair", "RPair", "OPrice", "OHold")})
        scripts = [c05_script(i, cases[i], cfgs) for i in idx]
        scripts += load_static(["bulk*.ndjson", "c05*.ndjson", "attest*.ndjson", "econ*.ndjson", "fees*.ndjson"])
        # vote orders: conflicting claims, validators ahead / behind, powers changing (attest family), deposits and executions (econ)
        for spec in (ATTEST_SIM, ECON_SIM):
            sp = dict(spec)
            sp["num"] = (40, 400)
            s2, st2 = simulate_scripts(sp, workdir, tier, dev, seed)
            scripts += s2
    sp = os.path.join(workdir, "scripts.ndjson")
    with open(sp, "w") as f:
        for sc in scripts:
            f.write(json.dumps(sc) + "\n")
    tp = os.path.join(workdir, "trace.ndjson")
    p, rt = run([vh, "run", "-scripts", sp, "-out", tp, "-nopost"], 3000)
    if p.returncode != 0:
        sys.stdout.write(p.stdout.decode(errors="replace")[-2000:])
        raise Infra("harness run failed")
    rep = validate(tp, workdir, dev, name="total", module="TraceTotal.tla", cfgname="TraceTotal.cfg")
    st = rep["stat"]
    log("[%s] %d of %d input class combinations (+ bulk scenarios) executed on the real application: %d block operations, %d failing transactions" % (prop, len(scripts), len(cases), st["blockops"], st["txerr"]))
    if not replay_file and st["blockops"] < 1000:
        raise Infra("vacuous run")
    fresh = [v for v in rep["viol"] if not match_known(prop, v[2], v[3])]
    hits = collections.Counter(match_known(prop, v[2], v[3])["id"] for v in rep["viol"] if match_known(prop, v[2], v[3]))
    for k in known_findings()["findings"]:
        if hits.get(k["id"]):
            log("KNOWN-FINDING: property=%s %s (%s; hit %d times in this run)" % (prop, k["what"], k["id"], hits[k["id"]]))
    rc = 0
    if fresh:
        rdir = os.path.join(ROOT, "evidence", "replay")
        os.makedirs(rdir, exist_ok=True)
        v = sorted(fresh)[0]
        path = os.path.join(rdir, "%s-%s.ndjson" % (prop, re.sub(r"[^A-Za-z0-9_.-]", "_", v[0])))
        with open(path, "w") as f:
            f.write(json.dumps(script_of(scripts, v[0])) + "\n")
        bykind = collections.Counter(v[3] for v in fresh)
        log("  block processing failed in %d behaviours: %s" % (len({v[0] for v in fresh}), dict(bykind)))
        sc = script_of(scripts, v[0])
        log("  first: %s step %d; case %s" % (v[0], v[1], json.dumps(cases[int(v[0][4:])]) if v[0].startswith("tot-") else ""))
        log("VIOLATION property=%s replay=%s" % (prop, path))
        rc = 1
    coverage = dict(states=dist + si_states, transitions=gen + si_states, traces_validated_against_impl=len(scripts),
                    samples=[cases[idx[0]], scripts[0]["acts"][:5]], input_class_combinations=len(cases), combinations_executed=len(scripts),
                    block_operations=st["blockops"], failing_transactions=st["txerr"], storeiter_configurations=len(si_runs),
                    exhaustive=(tier != "quick"), known_findings_hit=dict(hits),
                    rule="cross product of input classes per event type / message (Totality.tla), each as a minimal history with all three validators voting; "
                         "plus bulk scenarios (>= 67 pool entries written in one block with >= 2 expiries); the lock protocol of the cache store is model checked for dead-lock")
    write_evidence(prop, tier, seed, coverage, time.time() - t0, len(fresh),
                   ["a hang is detected by a 20 s watchdog per block operation", "every other check also evaluates C05:BlockOpsTotal on its behaviours"])
    return rc


# ------------------------------------------------------------------------------------------- C07 sign bytes
def check_c07(prop, tier, seed, replay_file=None):
    t0 = time.time()
    workdir = os.path.join(WORK, prop)
    shutil.rmtree(workdir, ignore_errors=True)
    os.makedirs(workdir)
    vh, bt = build_harness()
    outdir = os.path.join(workdir, "vectors")
    os.makedirs(outdir)
    rc, txt, dt, out = tlc("AbiLayout.tla", os.path.join(SPEC, "AbiLayout.cfg"), workdir, 600, env={"VERIF_OUT": outdir}, workers="2")
    gen, dist = parse_counts(txt)
    if "No error has been found" not in txt or not os.path.exists(os.path.join(outdir, "layouts.json")):
        raise Infra("AbiLayout design check failed, see " + out)
    log("[%s] AbiLayout.tla: %d shapes enumerated, layouts well formed (%.0fs)" % (prop, dist, dt))
    layouts = os.path.join(outdir, "layouts.json") if not replay_file else replay_file
    res_file = os.path.join(workdir, "result.json")
    p, rt = run([vh, "abi", "-layouts", layouts, "-sigs", os.path.join(outdir, "sigs.json"), "-out", res_file], 900)
    if p.returncode != 0:
        sys.stdout.write(p.stdout.decode(errors="replace")[-2000:])
        raise Infra("harness abi failed")
    res = json.load(open(res_file))
    bad_l = [r for r in res["layouts"] if not r["equal"] or "panic" in r]
    bad_s = [r for r in res["sigs"] if r.get("hub") != r["want"] or r.get("contract") != r["want"] or "err" in r]
    log("[%s] %d checkpoint digests and %d signature vectors compared with the real GetCheckpoint / NewEthereumSignature / ValidateEthereumSignature" % (prop, len(res["layouts"]), len(res["sigs"])))
    if len(res["layouts"]) < 100 or len(res["sigs"]) < 81:
        raise Infra("vacuous run")
    rc = 0
    if bad_l or bad_s:
        rdir = os.path.join(ROOT, "evidence", "replay")
        os.makedirs(rdir, exist_ok=True)
        path = os.path.join(rdir, "%s-layouts.json" % prop)
        vec = json.load(open(layouts))
        json.dump([vec[r["i"]] for r in bad_l][:50], open(path, "w"))
        for r in bad_l[:5]:
            log("  %s shape %s: hub digest %s, ABI encoding per the specification %s %s" % (r["kind"], json.dumps(r["shape"]), r["hub"][:16], r["spec"][:16], r.get("panic", "")))
        for r in bad_s[:5]:
            log("  signature vector %s" % json.dumps(r))
        log("VIOLATION property=%s replay=%s" % (prop, path))
        rc = 1
    kinds = collections.Counter(r["kind"] for r in res["layouts"])
    coverage = dict(states=dist, transitions=gen, traces_validated_against_impl=len(res["layouts"]) + len(res["sigs"]),
                    samples=[res["layouts"][0], res["sigs"][0]], shapes=dict(kinds), signature_vectors=len(res["sigs"]), exhaustive=True,
                    rule="one model state per shape (members 0..4; transfers 0,1,2,3,100; logic-call token / fee lists 0..2 each, payload 0,1,31,32,33,64,65 bytes; gravity id 0,1,31,32 bytes; "
                         "2-3 value variants drawn from 0, 1, 2^255, 2^256-1, 2^64-1, addresses with leading zero bytes); the slot vector is encoded independently of go-ethereum's abi package")
    write_evidence(prop, tier, seed, coverage, time.time() - t0, len(bad_l) + len(bad_s),
                   ["keccak256 and secp256k1 are go-ethereum's on both sides (treated as the contract's)", "nonces, timeouts and powers stay below 2^63 (the hub casts them through int64)",
                    "end to end the real contract bytecode accepts exactly the quorum-signed digests in check C08"])
    return rc


EXTRA_PROPS = {"C14": check_c14, "C20": check_c20, "C06": check_c06, "C15": check_c15, "C05": check_c05, "C07": check_c07}


def main(argv):
    ap = argparse.ArgumentParser()
    ap.add_argument("prop")
    ap.add_argument("--tier", default=os.environ.get("VERIF_TIER", "quick"))
    ap.add_argument("--replay")
    a = ap.parse_args(argv)
    seed = int(os.environ.get("VERIF_SEED", "1") or 1)
    tier = a.tier if a.tier in ("quick", "thorough") else "quick"
    try:
        if a.prop in PROPS:
            rc = check_hub_property(a.prop, tier, seed, a.replay)
        elif a.prop in EXTRA_PROPS:
            rc = EXTRA_PROPS[a.prop](a.prop, tier, seed, a.replay)
        else:
            raise Infra("no check for " + a.prop)
    except Infra as e:
        log("INFRA-ERROR property=%s: %s" % (a.prop, e))
        sys.exit(2)
    sys.exit(rc)
