"""Runner for the model-based checks of /verif (see DESIGN.md, bin/check)."""
import argparse, collections, glob, json, os, re, shutil, subprocess, sys, time

ROOT = os.path.abspath(os.path.join(os.path.dirname(__file__), ".."))
SPEC = os.path.join(ROOT, "spec")
WORK = os.path.join(ROOT, "work")
REPO = os.environ.get("VERIF_REPO", "/repo")
GOENV = dict(GOFLAGS="-mod=mod", GOPROXY="off", GOSUMDB="off", GOTOOLCHAIN="local")

# deviation switches that describe the code as it is today (recorded, unrepaired findings + their excuses)
def known_findings():
    with open(os.path.join(ROOT, "known_findings.json")) as f:
        return json.load(f)

def current_dev():
    return sorted({d for k in known_findings()["findings"] if k["status"] == "known" for d in k.get("dev", [])})


class Infra(Exception):
    """The machinery failed; no verdict."""


def log(*a):
    print(*a, flush=True)


def run(cmd, timeout, env=None, cwd=None, out=None):
    e = dict(os.environ)
    if env:
        e.update(env)
    t0 = time.time()
    try:
        if out:
            with open(out, "w") as f:
                p = subprocess.run(cmd, cwd=cwd, env=e, stdout=f, stderr=subprocess.STDOUT, timeout=timeout)
        else:
            p = subprocess.run(cmd, cwd=cwd, env=e, stdout=subprocess.PIPE, stderr=subprocess.STDOUT, timeout=timeout)
    except subprocess.TimeoutExpired:
        subprocess.run(["pkill", "-f", "tlc2.TL[C]"], stdout=subprocess.DEVNULL, stderr=subprocess.DEVNULL)
        raise Infra("timeout after %ss: %s" % (timeout, " ".join(cmd[:6])))
    return p, time.time() - t0


# ------------------------------------------------------------------------------------------- harness
def build_harness():
    os.makedirs(os.path.join(WORK, "bin"), exist_ok=True)
    hdir = os.path.join(ROOT, "harness")
    # go.sum of the harness module = union of the repository modules' sums (offline, no proxy)
    sums = set()
    for m in ("module", "minter-connector"):
        p = os.path.join(REPO, m, "go.sum")
        if os.path.exists(p):
            sums.update(open(p).read().splitlines())
    keep = os.path.join(hdir, "go.sum.extra")
    if os.path.exists(keep):
        sums.update(open(keep).read().splitlines())
    with open(os.path.join(hdir, "go.sum"), "w") as f:
        f.write("\n".join(sorted(s for s in sums if s.strip())) + "\n")
    binp = os.path.join(WORK, "bin", "vh")
    p, dt = run(["go", "build", "-tags", "verif", "-o", binp, "./cmd/vh"], 900, env=GOENV, cwd=hdir)
    if p.returncode != 0:
        sys.stdout.write(p.stdout.decode(errors="replace")[-4000:])
        raise Infra("harness build failed (does /repo still compile with -tags verif?)")
    return binp, dt


# ------------------------------------------------------------------------------------------- TLC
def tlc_cfg(src, dst, subst):
    """copy a .cfg replacing  NAME = value  lines"""
    txt = open(src).read()
    for k, v in subst.items():
        txt, n = re.subn(r"(?m)^(\s*%s\s*=\s*).*$" % re.escape(k), lambda m: m.group(1) + v, txt)
        if n == 0:
            raise Infra("cfg %s has no constant %s" % (src, k))
    open(dst, "w").write(txt)


def dev_value(dev):
    return "{" + ", ".join('"%s"' % d for d in dev) + "}"


def tlc(module, cfg, workdir, timeout, extra=(), env=None, workers="16"):
    meta = os.path.join(workdir, "meta-" + os.path.basename(cfg))
    shutil.rmtree(meta, ignore_errors=True)
    out = os.path.join(workdir, os.path.basename(cfg) + ".out")
    cmd = ["tlc", "-noGenerateSpecTE", "-workers", workers, "-metadir", meta, "-config", cfg] + list(extra) + [module]
    env = dict(env or {})
    # a small, fixed heap: with TLC's default (25% of RAM) most of the run time is the kernel faulting in fresh pages
    env.setdefault("JAVA_TOOL_OPTIONS", "-Xmx6g -Xmn2g")
    p, dt = run(cmd, timeout, env=env, cwd=SPEC, out=out)
    txt = open(out, errors="replace").read()
    shutil.rmtree(meta, ignore_errors=True)
    return p.returncode, txt, dt, out


def parse_counts(txt):
    m = re.findall(r"(\d[\d,]*) states generated, (\d[\d,]*) distinct states found", txt)
    if not m:
        m2 = re.search(r"The number of states generated: (\d+)", txt)
        if m2:
            return int(m2.group(1)), int(m2.group(1))
        return 0, 0
    g, d = m[-1]
    return int(g.replace(",", "")), int(d.replace(",", ""))


def design_check(spec, workdir, tier, dev):
    """exhaustive TLC run of a bounded model; returns dict(states, transitions, wall, cfg)"""
    src = os.path.join(SPEC, spec["cfg"])
    dst = os.path.join(workdir, os.path.basename(src))
    subst = {"Dev": dev_value(dev)}
    subst.update(spec.get(tier, {}))
    tlc_cfg(src, dst, subst)
    rc, txt, dt, out = tlc(spec["module"], dst, workdir, spec.get("timeout", 600))
    gen, dist = parse_counts(txt)
    ok = "Model checking completed. No error has been found." in txt
    if not ok:
        viol = re.search(r"Invariant (\w+) is violated", txt)
        cex = None
        if viol:
            # second run with the action history switched on: the violated invariant writes the behaviour out
            subst2 = dict(subst)
            subst2["KeepHist"] = "TRUE"
            dst2 = dst + ".cex.cfg"
            tlc_cfg(src, dst2, subst2)
            cexp = os.path.join(workdir, os.path.basename(src) + ".cex.json")
            if os.path.exists(cexp):
                os.remove(cexp)
            tlc(spec["module"], dst2, workdir, spec.get("timeout", 600), env={"VERIF_CEX": cexp})
            if os.path.exists(cexp):
                cex = {"id": "cex-" + os.path.basename(src), "family": spec.get("family", "econ"), "acts": json.load(open(cexp))}
        return dict(ok=False, states=dist, transitions=gen, wall=dt, out=out, invariant=viol.group(1) if viol else None, cfg=spec["cfg"], cex=cex)
    return dict(ok=True, states=dist, transitions=gen, wall=dt, cfg=spec["cfg"], constants=subst)


def simulate_scripts(spec, workdir, tier, dev, seed):
    """TLC simulation mode: one JSON script per behaviour"""
    src = os.path.join(SPEC, spec["cfg"])
    dst = os.path.join(workdir, os.path.basename(src))
    subst = {"Dev": dev_value(dev)}
    subst.update(spec.get(tier, {}))
    tlc_cfg(src, dst, subst)
    outdir = os.path.join(workdir, "scripts-" + os.path.basename(src))
    shutil.rmtree(outdir, ignore_errors=True)
    os.makedirs(outdir)
    num = spec["num"][0 if tier == "quick" else 1]
    rc, txt, dt, out = tlc(spec["module"], dst, workdir, spec.get("timeout", 900),
                           extra=["-simulate", "num=%d" % num, "-depth", str(spec.get("depth", 200)), "-seed", str(seed)],
                           env={"VERIF_OUT": outdir}, workers="1")
    if "Error:" in txt and "is violated" not in txt:
        raise Infra("TLC simulation failed, see " + out)
    gen, _ = parse_counts(txt)
    scripts = []
    files = sorted(glob.glob(os.path.join(outdir, "s*.json")), key=lambda p: int(re.findall(r"s(\d+)\.json", p)[0]))
    for f in files:
        try:
            acts = json.load(open(f))
        except Exception:
            continue
        scripts.append({"id": "%s-%d-%s" % (spec.get("family", "sim"), seed, os.path.basename(f)[:-5]), "family": spec.get("family", ""), "acts": acts})
    viol = re.search(r"Invariant (\w+) is violated", txt)
    return scripts, dict(states=gen, wall=dt, behaviours=len(scripts), model_violation=viol.group(1) if viol else None, out=out)


def load_static(patterns):
    scripts = []
    for pat in patterns:
        for f in sorted(glob.glob(os.path.join(ROOT, "scripts", pat))):
            for line in open(f):
                line = line.strip()
                if line and not line.startswith("#"):
                    scripts.append(json.loads(line))
    return scripts


def replay(vh, scripts, workdir, name="trace", digest=False):
    sp = os.path.join(workdir, name + ".scripts.ndjson")
    with open(sp, "w") as f:
        for s in scripts:
            f.write(json.dumps(s) + "\n")
    tp = os.path.join(workdir, name + ".trace.ndjson")
    cmd = [vh, "run", "-scripts", sp, "-out", tp] + (["-digest"] if digest else [])
    p, dt = run(cmd, 1800)
    if p.returncode != 0:
        sys.stdout.write(p.stdout.decode(errors="replace")[-3000:])
        raise Infra("harness run failed")
    return tp, dt


def validate(trace, workdir, dev, name="trace", module="Trace.tla", cfgname="Trace.cfg"):
    dst = os.path.join(workdir, name + "." + cfgname)
    tlc_cfg(os.path.join(SPEC, cfgname), dst, {"Dev": dev_value(dev)})
    rep = os.path.join(workdir, name + ".report.json")
    if os.path.exists(rep):
        os.remove(rep)
    env = {"VERIF_TRACE": trace, "VERIF_REPORT": rep}
    rc, txt, dt, out = tlc(module, dst, workdir, 1800, env=env, workers="1")
    if not os.path.exists(rep) or "No error has been found" not in txt:
        tail = "\n".join(l[:300] for l in txt.splitlines() if not l.startswith(("Parsing", "Semantic", "Linting")))[-3000:]
        sys.stdout.write(tail + "\n")
        raise Infra("trace validation did not complete (the specification could not consume the trace), see " + out)
    r = json.load(open(rep))
    r["wall"] = dt
    gen, dist = parse_counts(txt)
    r["tlc_states"] = dist
    return r


def script_of(scripts, sid):
    for s in scripts:
        if s["id"] == sid:
            return s
    return None


def match_known(prop, check, detail):
    for k in known_findings()["findings"]:
        if k["status"] != "known" or k["property"] != prop:
            continue
        for c in k["checks"]:
            if c[0] == check and (len(c) == 1 or c[1] == "*" or c[1] == detail):
                return k
    return None


# ------------------------------------------------------------------------------------------- properties
ECON_MC = dict(module="MC_Hub.tla", cfg="MC_Econ.cfg", timeout=900,
               quick={"MaxLen": "9"}, thorough={"MaxLen": "14", "MaxBlocks": "3"})
ECON_SIM = dict(module="MC_Hub.tla", cfg="MC_EconSim.cfg", family="econ", num=(40, 600), depth=200, timeout=3000,
                quick={"MaxLen": "40"}, thorough={"MaxLen": "70"})
ATTEST_MC = dict(module="MC_Hub.tla", cfg="MC_Attest.cfg", timeout=1500, quick={"MaxLen": "6"}, thorough={"MaxLen": "9"})
ATTEST_SIM = dict(module="MC_Hub.tla", cfg="MC_AttestSim.cfg", family="attest", num=(40, 600), depth=200, timeout=3000,
                  quick={"MaxLen": "40"}, thorough={"MaxLen": "60"})

VALSET_MC = dict(module="MC_Hub.tla", cfg="MC_Valset.cfg", timeout=1500, quick={"MaxLen": "5"}, thorough={"MaxLen": "7"})
VALSET_SIM = dict(module="MC_Hub.tla", cfg="MC_ValsetSim.cfg", family="valset", num=(40, 600), depth=200, timeout=3000,
                  quick={"MaxLen": "40"}, thorough={"MaxLen": "60"})

PROPS = {
    "C09": dict(mc=[VALSET_MC], sim=[VALSET_SIM], static=["valset*.ndjson"],
                watch=["C09:", "conf:ss"],
                need={"SetKeys/ok": 3, "Begin/ok": 5, "Stake/ok": 2}),
    "C16": dict(mc=[VALSET_MC], sim=[VALSET_SIM], static=["valset*.ndjson"],
                watch=["C16:", "conf:sigs"],
                need={"SetKeys/ok": 3, "Confirm/ok": 2, "Confirm/err": 2}),
    "C17": dict(mc=[VALSET_MC], sim=[VALSET_SIM], static=["valset*.ndjson"],
                watch=["C17:", "conf:keys"],
                need={"SetKeys/ok": 3, "SetKeys/err": 3}),
    "C01": dict(mc=[ECON_MC], sim=[ECON_SIM], static=["econ*.ndjson"],
                watch=["C01:", "conf:bal", "conf:sup"],
                need={"ExtDeposit/ok": 3, "Claim/ok": 6, "End/ok": 3, "Send/ok": 5}),
    "C02": dict(mc=[ATTEST_MC], sim=[ATTEST_SIM, ECON_SIM], static=["attest*.ndjson"],
                watch=["C02:", "conf:votes", "conf:lon"],
                need={"Claim/ok": 5, "Claim/err": 1, "End/ok": 3, "Stake/ok": 1}),
    "C11": dict(mc=[ECON_MC], sim=[ECON_SIM], static=["econ*.ndjson"],
                watch=["C11:", "conf:bal", "conf:sup", "conf:pool", "conf:out"],
                need={"Send/ok": 5, "Send/err": 1, "Claim/ok": 6, "End/ok": 3}),
    "C03": dict(mc=[ATTEST_MC], sim=[ATTEST_SIM, ECON_SIM], static=["attest*.ndjson"],
                watch=["C03:", "conf:lon", "conf:votes", "conf:lnv"],
                need={"Claim/ok": 5, "Claim/err": 1, "End/ok": 3}),
    "C04": dict(mc=[ECON_MC], sim=[ECON_SIM], static=["econ*.ndjson"],
                watch=["C04:", "conf:pool", "conf:bat", "conf:st", "conf:cnt"],
                need={"Send/ok": 5, "Cancel/ok": 1, "ReqBatch/ok": 1, "End/ok": 3}),
    "C10": dict(mc=[ECON_MC], sim=[ECON_SIM], static=["econ*.ndjson"],
                watch=["C10:", "conf:bat", "conf:cnt"],
                need={"Send/ok": 5, "ReqBatch/ok": 1, "Begin/ok": 3}),
    "C12": dict(mc=[ECON_MC], sim=[ECON_SIM], static=["econ*.ndjson"],
                watch=["C12:", "conf:out", "conf:bal", "conf:pool"],
                need={"Cancel/ok": 1, "Cancel/err": 1, "End/ok": 3}),
    "C13": dict(mc=[ECON_MC], sim=[ECON_SIM], static=["econ*.ndjson"],
                watch=["C13:", "conf:bat", "conf:pool"],
                need={"ReqBatch/ok": 1, "Claim/ok": 3, "End/ok": 3}),
}


def evidence_path(prop):
    return os.path.join(ROOT, "evidence", prop + ".json")


def write_evidence(prop, tier, seed, cov, wall, violations, assumptions):
    os.makedirs(os.path.join(ROOT, "evidence"), exist_ok=True)
    ev = dict(property_id=prop, tier=tier, seed=seed, level="model_checking", coverage=cov, assumptions=assumptions,
              wall_s=round(wall, 1), violations=violations)
    tmp = evidence_path(prop) + ".tmp"
    with open(tmp, "w") as f:
        json.dump(ev, f, indent=1, sort_keys=True)
    os.replace(tmp, evidence_path(prop))


def watched(plan, check):
    return any(check.startswith(w) for w in plan["watch"])


def check_hub_property(prop, tier, seed, replay_file=None):
    plan = PROPS[prop]
    t0 = time.time()
    workdir = os.path.join(WORK, prop)
    shutil.rmtree(workdir, ignore_errors=True)
    os.makedirs(workdir)
    dev = current_dev()
    vh, bt = build_harness()
    log("[%s] harness built in %.0fs; deviation switches (known findings) = %s" % (prop, bt, dev))

    mc_results = []
    cex_scripts = []
    scripts = []
    sim_stats = []
    if replay_file:
        for line in open(replay_file):
            if line.strip():
                scripts.append(json.loads(line))
    else:
        for spec in plan["mc"]:
            r = design_check(spec, workdir, tier, dev)
            mc_results.append(r)
            log("[%s] design check %s: %d distinct states, %d transitions, %.0fs, ok=%s" % (prop, spec["cfg"], r["states"], r["transitions"], r["wall"], r["ok"]))
            if not r["ok"]:
                if r.get("cex"):
                    # counterexample confirmation: only a failure reproduced on the real code is a verdict
                    log("[%s] the bounded model violates %s; replaying its counterexample (%d steps) on the real application" % (prop, r.get("invariant"), len(r["cex"]["acts"])))
                    cex_scripts.append(r["cex"])
                else:
                    raise Infra("the bounded model %s fails (%s) and no counterexample script could be extracted; see %s" % (spec["cfg"], r.get("invariant"), r.get("out")))
        for spec in plan["sim"]:
            s, st = simulate_scripts(spec, workdir, tier, dev, seed)
            log("[%s] simulation %s: %d behaviours, %d states, %.0fs" % (prop, spec["cfg"], len(s), st["states"], st["wall"]))
            if st["model_violation"]:
                raise Infra("simulation of %s violates %s at model level; see %s" % (spec["cfg"], st["model_violation"], st["out"]))
            scripts += s
            sim_stats.append(st)
        scripts += load_static(plan.get("static", []))
        scripts += cex_scripts
    if not scripts:
        raise Infra("no behaviours to replay")

    trace, rt = replay(vh, scripts, workdir)
    rep = validate(trace, workdir, dev)
    log("[%s] replayed %d behaviours on the real application (%.0fs); TLC validated %d trace lines (%.0fs)" % (prop, len(scripts), rt, rep["lines"], rep["wall"]))

    # anti-vacuity
    cov = rep["cov"]
    if not replay_file:
        for k, n in plan.get("need", {}).items():
            if cov.get(k, 0) < n:
                raise Infra("vacuous run: step kind %s seen %d times, need %d" % (k, cov.get(k, 0), n))

    viols = [v for v in rep["viol"] if watched(plan, v[2])]
    fresh, known = [], collections.OrderedDict()
    for v in viols:
        k = match_known(prop, v[2], v[3])
        if k:
            known.setdefault(k["id"], [k, 0])[1] += 1
        else:
            fresh.append(v)
    for kid, (k, n) in known.items():
        log("KNOWN-FINDING: property=%s %s (%s; hit %d times in this run)" % (prop, k["what"], kid, n))

    if cex_scripts and not fresh:
        raise Infra("the bounded model has a counterexample that the real application does not reproduce: the specification "
                    "(or its deviation set) is wrong, not the code; see %s" % [r.get("out") for r in mc_results if not r["ok"]])
    rc = 0
    rdir = os.path.join(ROOT, "evidence", "replay")
    if fresh:
        os.makedirs(rdir, exist_ok=True)
        first = fresh[0]
        s = script_of(scripts, first[0])
        path = os.path.join(rdir, "%s-%s.ndjson" % (prop, re.sub(r"[^A-Za-z0-9_.-]", "_", first[0])))
        with open(path, "w") as f:
            f.write(json.dumps(s) + "\n")
        byname = collections.Counter((v[2], v[3]) for v in fresh)
        for (c, d), n in byname.most_common(8):
            log("  failed check %s [%s] on %d steps" % (c, d, n))
        log("  first: behaviour %s step %d: %s" % (first[0], first[1], json.dumps(s["acts"][first[1] - 1]) if s else "?"))
        log("VIOLATION property=%s replay=%s" % (prop, path))
        rc = 1

    samples = [dict(id=s["id"], acts=s["acts"][:12]) for s in scripts[:2]]
    kinds = collections.Counter()
    for s in scripts:
        for a in s["acts"]:
            kinds[a.get("k", "?")] += 1
    coverage = dict(
        states=sum(r["states"] for r in mc_results) or rep.get("tlc_states", 1) or 1,
        transitions=sum(r["transitions"] for r in mc_results) or rep["lines"] or 1,
        traces_validated_against_impl=rep["traces"],
        samples=samples,
        trace_steps_validated=rep["lines"],
        step_outcomes=cov,
        distinct_nontrivial=len(cov),
        rule="behaviours = TLC simulation of the bounded model (seeded) + committed regression scripts, each replayed on the real "
             "application; a step kind/outcome class (e.g. Cancel/err) counts once in distinct_nontrivial",
        design_checks=[dict(cfg=r["cfg"], distinct_states=r["states"], transitions=r["transitions"], wall_s=round(r["wall"], 1), constants=r.get("constants")) for r in mc_results],
        simulation=[dict(behaviours=s["behaviours"], states=s["states"]) for s in sim_stats],
        checks_watched=plan["watch"],
        known_findings_hit={k: n for k, (_, n) in known.items()},
        deviation_switches=dev,
        exhaustive=False,
    )
    write_evidence(prop, tier, seed, coverage, time.time() - t0, len(fresh),
                   ["the Go harness drives the real app.Mhub2 through ABCI with really signed transactions; the projection reads state through exported keeper getters and raw store prefixes",
                    "amounts in replayed behaviours stay below 2^30 (TLC integers are 32 bit)",
                    "external chains are the specification's abstract event logs in this check"])
    return rc


def main(argv):
    ap = argparse.ArgumentParser()
    ap.add_argument("prop")
    ap.add_argument("--tier", default=os.environ.get("VERIF_TIER", "quick"))
    ap.add_argument("--replay")
    a = ap.parse_args(argv)
    seed = int(os.environ.get("VERIF_SEED", "1") or 1)
    tier = a.tier if a.tier in ("quick", "thorough") else "quick"
    try:
        if a.prop in PROPS:
            rc = check_hub_property(a.prop, tier, seed, a.replay)
        else:
            raise Infra("no check for " + a.prop)
    except Infra as e:
        log("INFRA-ERROR property=%s: %s" % (a.prop, e))
        sys.exit(2)
    sys.exit(rc)
