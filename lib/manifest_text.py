HOOK_COMMITS = ["c087df2"]
_std_note = ("Trusted: TLC, the Go harness (/verif/harness) and its projection of the application state; cosmos-sdk 0.45.4, "
             "tendermint and tm-db as vendored. Bounded: 3 validators, 2-3 users, amounts < 2^30, behaviours of 40-70 steps; "
             "external chains are abstract event logs in this check. The verdict comes only from steps executed by the real application.")
TEXT = {
 "C03": dict(level="Every step of every replayed behaviour of the real application is checked by TLC against the nonce-order predicates (consecutive application, at most one accepted record per nonce, per-validator contiguity) and against the specification's own post-state for the vote records and nonce counters; the bounded model is checked exhaustively for the same predicates.", note=_std_note),
 "C04": dict(level="ExactlyOnePlace and the status lifecycle are evaluated by TLC on every transition of the bounded model (exhaustive) and on every recorded step of the real application, with a ghost set of terminal transfers; pool, batches, counters and statuses must equal the specification's post-state.", note=_std_note),
 "C10": dict(level="Every batch created in any recorded step of the real application (automatic, requested, after a timeout release) is checked for non-emptiness, cap, token, top-fee selection, and gap-free nonces/sequences; same predicates exhaustively on the bounded model.", note=_std_note),
 "C12": dict(level="Cancel authorisation (accepted iff unbatched and by its sender), exact refunds (ghost of the amount taken), removal, and the expiry rule are checked on every recorded step; exhaustive on the bounded model.", note=_std_note),
 "C13": dict(level="Every batch that disappears in a recorded step must have one of the three admissible reasons (observed height past its timeout at BeginBlock on a non-Minter chain, applied execution of exactly it, applied execution of a later same-token batch) and its transfers must return to the pool exactly when not executed.", note=_std_note),
}
NOT_YET = {}
