------------------------------ MODULE Totality ------------------------------
(***************************************************************************)
(* C05 (totality part): block processing terminates without panic for      *)
(* every admissible input.  The module enumerates the cross product of the *)
(* input classes of every event type a validator quorum can get applied    *)
(* and of the user messages, together with the state conditions that       *)
(* matter (oracle prices present or not, Minter delegate keys present or   *)
(* not, an executed batch with or without fees).  Every combination is     *)
(* turned into a minimal history by the runner (deposit / batch set-up,    *)
(* the three validators' claims, the block end, one more block) and        *)
(* executed on the real application under a watchdog; the specification's  *)
(* claim BlockOpsTotal is that every BeginBlock / EndBlock outcome is ok.  *)
(* Values are classes; the runner substitutes 2^255, 2^256-1 etc.          *)
(***************************************************************************)
EXTENDS Integers, Sequences, FiniteSets, SequencesExt, TLC, Json, IOUtils

AmtClasses == {"zero", "one", "small", "p255", "max256"}
FeeClasses == {"neg", "zero", "one", "above", "p255"}
TokClasses == {"known", "known2", "unknown", "prefix"}
RchClasses == {"hub", "minter", "ethereum", "bsc", "nochain"}
RcvClasses == {"ext", "hubacct", "noprefix"}
Chains     == {"ethereum", "minter"}
Worlds     == {"plain", "keys+prices", "keys"}

Deposits == {[t |-> "Deposit", chain |-> c, amt |-> a, fee |-> f, tok |-> k, rch |-> r, rcv |-> v, world |-> w] :
               c \in Chains, a \in AmtClasses, f \in FeeClasses, k \in TokClasses, r \in RchClasses, v \in RcvClasses, w \in {"plain", "keys+prices"}}
ToHubs   == {[t |-> "ToHub", chain |-> c, amt |-> a, tok |-> k, rcv |-> v, world |-> "plain"] :
               c \in Chains, a \in AmtClasses, k \in TokClasses, v \in {"hubacct", "module", "tmp"}}
Execs    == {[t |-> "Exec", chain |-> c, batch |-> b, fp |-> f, fpr |-> p, tok |-> k, sendamt |-> sa, sendfee |-> sf, world |-> w] :
               c \in Chains, b \in {"existing", "missing"}, f \in {"zero", "one", "p255"}, p \in {"ext", "empty"}, k \in {"known", "known2"},
               sa \in {"hundred", "big"}, sf \in {"zero", "some"}, w \in Worlds}
SSExecs  == {[t |-> "SSExec", chain |-> c, members |-> m, world |-> "plain"] : c \in Chains, m \in {"empty", "one", "dup", "hugepower"}}
CCExecs  == {[t |-> "CCExec", chain |-> c, world |-> "plain"] : c \in Chains}
Sends    == {[t |-> "Send", chain |-> c, amt |-> a, fee |-> f, world |-> "plain"] : c \in Chains, a \in {"one", "small", "p255"}, f \in {"zero", "one", "above"}}

\* two forwarded deposits that meet in one destination pool (and then in one batch): sums over several pool entries / batch
\* members (fees of the next batch, fees and commissions of an executed batch) see two 2^255-scale values at once.
\* prior: a batch of the same token already exists when they arrive; exec: the batch that holds both is reported executed
Pairs    == {[t |-> "Pair", chain |-> c, amt |-> a, fee |-> f, prior |-> pr, same |-> sb, exec |-> x, world |-> w] :
               c \in Chains, a \in {"p255plus", "small"}, f \in {"p255", "one"}, pr \in BOOLEAN, sb \in BOOLEAN, x \in BOOLEAN,
               w \in {"plain", "keys+prices"}}

\* two user transfers of one account whose batches time out together and that have expired by then: both are refunded in
\* one EndBlock (sums on the account and in the supply)
RPairs   == {[t |-> "RPair", chain |-> "ethereum", amt |-> a, both |-> b, world |-> "plain"] : a \in {"p255", "small"}, b \in BOOLEAN}

\* oracle price claims (messages of validator accounts): every required price has the same value class; with two of three equal
\* validators voting the median is the mean of two claimed values
OPrices  == {[t |-> "OPrice", chain |-> "ethereum", val |-> v, voters |-> n, world |-> w] :
               v \in {"one", "maxdec", "tiny"}, n \in {1, 2, 3}, w \in {"plain", "keys+prices"}}

\* oracle holders claims: the first voter's claim has the given shape (no holders field at all, an empty list, a huge value),
\* the others report an ordinary list
OHolds   == {[t |-> "OHold", chain |-> "ethereum", shape |-> sh, voters |-> n, world |-> "plain"] :
               sh \in {"nolist", "empty", "huge", "ordinary"}, n \in {1, 2, 3}}

Cases == Deposits \cup ToHubs \cup Execs \cup SSExecs \cup CCExecs \cup Sends \cup Pairs \cup RPairs \cup OPrices \cup OHolds

VARIABLE case
Init == case \in Cases
Next == UNCHANGED case
Spec == Init /\ [][Next]_case
\* every case is well formed (all fields drawn from the declared classes); the behavioural claim is checked on the real code
WellFormed == case.t \in {"Deposit", "ToHub", "Exec", "SSExec", "CCExec", "Send", "Pair", "RPair", "OPrice", "OHold"} /\ case.chain \in Chains

ASSUME IF "VERIF_OUT" \in DOMAIN IOEnv THEN JsonSerialize(IOEnv.VERIF_OUT, SetToSeq(Cases)) ELSE TRUE
=============================================================================
