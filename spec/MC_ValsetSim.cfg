SPECIFICATION Spec
CONSTANTS
  UseStaticCfg = TRUE
  StaticCfg <- DefaultCfg
  Dev = {"RefundTruncatedDust"}
  Family = "valset"
  MaxLen = 40
  Amts = {10, 101, 7, 5000}
  Fees = {0, 3, 1}
  Users = {"a1", "a2"}
  SendChains = {"ethereum", "minter"}
  Denoms = {"usd", "hub"}
  DepChains = {"minter", "ethereum"}
  DepDests = {"hub", "ethereum", "minter"}
  MaxSends = 8
  MaxDeposits = 5
  MaxBlocks = 30
  Orchs = {"o1", "o2", "o3", "v2"}
  Exts = {"e1", "e2", "e3"}
  KeyChains = {"ethereum", "minter"}
  KeyVariants = {"good", "wrongtx", "wrongkey", "stale", "wrongval", "tool", "toolstale", "nonval"}
  DepAmts = {40}
  DepFees = {0, 2}
  WithKeysAndPrices = FALSE
  FeePaids = {1}
  StakePowers = {0, 1, 2, 3}
  WatchNames = {}
  KeepHist = TRUE
  TwoLevel = TRUE
  EmitScripts = TRUE
CONSTRAINT Emit
INVARIANT NoStepViolation

CHECK_DEADLOCK FALSE
