----------------------------- MODULE TraceBulk -----------------------------
(***************************************************************************)
(* Bulk scenarios (hundreds of pool entries: too many for the full trace   *)
(* specification) carry a summary per step: per chain the size of the      *)
(* pool, the highest waiting fee per token and per batch                   *)
(*   <<nonce, token, number of transfers, lowest fee, sequence>>.          *)
(* Every batch that appears is checked against C10: non-empty, at most     *)
(* 100 transfers, its lowest fee is not below the highest fee of the same  *)
(* token still waiting in the pool (the highest-fee transfers were taken), *)
(* nonces and sequence numbers continue without gap; and against C05:      *)
(* block processing returned.                                              *)
(***************************************************************************)
EXTENDS Integers, Sequences, FiniteSets, TLC, Json, IOUtils
Trace == ndJsonDeserialize(IOEnv.VERIF_TRACE)
VARIABLES l, viol, stat, id, prev
vars == <<l, viol, stat, id, prev>>
Init == l = 0 /\ viol = {} /\ stat = [batches |-> 0, full |-> 0, biggestpool |-> 0, traces |-> 0] /\ id = "" /\ prev = <<>>

RangeOf(s) == {s[i] : i \in DOMAIN s}
Get(f, k, d) == IF k \in DOMAIN f THEN f[k] ELSE d
MaxOf(S) == IF S = {} THEN 0 ELSE CHOOSE x \in S : \A y \in S : y <= x

\* batches of chain c in summary sm
Bats(sm, c) == RangeOf(sm[c].bats)
NewBats(p, sm, c) == {b \in Bats(sm, c) : ~\E o \in Bats(p, c) : o[1] = b[1] /\ o[2] = b[2]}
Checks(p, sm) ==
    UNION {
      UNION {
           (IF b[3] = 0 THEN {<<"C10:EmptyBatch", c>>} ELSE {})
      \cup (IF b[3] > 100 THEN {<<"C10:BatchCap", c>>} ELSE {})
      \cup (IF b[4] < Get(sm[c].poolmax, b[2], 0) THEN {<<"C10:TopFees", c>>} ELSE {})
        : b \in NewBats(p, sm, c)}
      \* nonces of the new batches continue the ones in view without gap (per chain)
      \cup (LET old == {b[1] : b \in Bats(p, c)}
                new == {b[1] : b \in NewBats(p, sm, c)}
            IN IF new # {} /\ old # {} /\ new # (MaxOf(old) + 1)..(MaxOf(old) + Cardinality(new)) THEN {<<"C10:NonceGap", c>>} ELSE {})
      \cup (IF Cardinality({b[5] : b \in Bats(sm, c)}) # Cardinality(Bats(sm, c)) THEN {<<"C10:SequenceReused", c>>} ELSE {})
      : c \in DOMAIN sm}

Next == /\ l < Len(Trace)
        /\ LET line == Trace[l + 1] IN
           IF line.k = "reset" THEN /\ id' = line.id /\ viol' = viol /\ stat' = [stat EXCEPT !.traces = @ + 1] /\ prev' = <<>>
           ELSE /\ id' = id
                /\ LET dead == line.res.out \in {"panic", "timeout", "dead"} \/ (line.act.k \in {"Begin", "End", "Blocks"} /\ line.res.out # "ok")
                       hasSum == "sum" \in DOMAIN line
                       fs == IF hasSum /\ prev # <<>> THEN Checks(prev, line.sum) ELSE {}
                   IN /\ viol' = viol \cup {<<id, line.i, f[1], f[2]>> : f \in fs}
                                      \cup (IF dead THEN {<<id, line.i, "C05:BlockOpsTotal", line.res.out>>} ELSE {})
                      /\ prev' = IF hasSum THEN line.sum ELSE prev
                      /\ stat' = IF ~hasSum \/ prev = <<>> THEN stat
                                 ELSE [stat EXCEPT !.batches = @ + Cardinality(UNION {NewBats(prev, line.sum, c) : c \in DOMAIN line.sum}),
                                                   !.full = @ + Cardinality(UNION {{b \in NewBats(prev, line.sum, c) : b[3] = 100} : c \in DOMAIN line.sum}),
                                                   !.biggestpool = MaxOf({@} \cup {line.sum[c].pool : c \in DOMAIN line.sum})]
        /\ l' = l + 1
Spec == Init /\ [][Next]_vars
Record == TLCSet(1, [viol |-> viol, stat |-> stat, lines |-> l])
Consumed == TLCGet("stats").diameter - 1 = Len(Trace)
Report == Consumed /\ JsonSerialize(IOEnv.VERIF_REPORT, TLCGet(1))
=============================================================================
