------------------------------ MODULE MC_Hub ------------------------------
(***************************************************************************)
(* Bounded model of the hub together with an abstract external world       *)
(* (contracts / Minter multisig as event logs with custody) and a set of   *)
(* validators, users and relayers.  Used in two ways:                      *)
(*  - exhaustively (tlc -workers N): every property predicate of Props is  *)
(*    evaluated on every transition, the solvency invariant in every       *)
(*    state;                                                               *)
(*  - in simulation mode (tlc -simulate): each behaviour of length MaxLen  *)
(*    is printed as a JSON script that the Go harness replays on the real  *)
(*    application.                                                         *)
(* Family selects the action vocabulary.                                   *)
(***************************************************************************)
EXTENDS ExtWorld, Json, IOUtils

CONSTANTS Family,     \* "econ" | "attest" | "valset" | "registry"
          MaxLen,     \* length of generated behaviours / depth bound of the exhaustive runs
          Amts, Fees, \* amounts and fees of user sends
          Users, SendChains, Denoms, DepChains, DepDests, \* alphabet of the econ family
          MaxSends, MaxDeposits, MaxBlocks, \* bounds that keep the exhaustive runs finite and small
          Orchs, Exts, KeyChains, KeyVariants, \* alphabet of the valset / registry family
          DepAmts, DepFees, WithKeysAndPrices, FeePaids, StakePowers, \* fees family: genesis with Minter delegate keys and oracle prices; gas costs reported by relayers
          WatchNames, \* names of the property predicates whose failure is a violation in this run
          KeepHist,   \* TRUE: carry the action history (simulation; counterexample extraction)
          TwoLevel,   \* TRUE (simulation): first pick an action kind uniformly, then its parameters
          EmitScripts \* TRUE: print a script whenever a behaviour reaches MaxLen

VARIABLES hub, xw, g, hist, bad, pick, cnt
vars == <<hub, xw, g, hist, bad, pick, cnt>>

Vals  == {"v1", "v2", "v3"}
ExtChains == {"ethereum", "minter", "bsc"}

\* ---- mirrors world.DefaultCfg() of the harness (checked by conformance on every replayed script)
DefaultCfg ==
    [chains |-> <<"ethereum", "minter", "bsc", "hub">>,
     tokens |-> << [id |-> 1, denom |-> "hub", chain |-> "ethereum", ext |-> "t1", dec |-> 18, rnum |-> 1, rden |-> 100, ord |-> 4, pfx |-> {}],
                   [id |-> 2, denom |-> "hub", chain |-> "minter",   ext |-> "1",  dec |-> 18, rnum |-> 1, rden |-> 100, ord |-> 5, pfx |-> {"12"}],
                   [id |-> 3, denom |-> "hub", chain |-> "bsc",      ext |-> "t3", dec |-> 18, rnum |-> 1, rden |-> 100, ord |-> 2, pfx |-> {}],
                   [id |-> 4, denom |-> "usd", chain |-> "ethereum", ext |-> "t4", dec |-> 17, rnum |-> 1, rden |-> 2,   ord |-> 3, pfx |-> {}],
                   [id |-> 5, denom |-> "usd", chain |-> "minter",   ext |-> "12", dec |-> 19, rnum |-> 0, rden |-> 1,   ord |-> 6, pfx |-> {}],
                   [id |-> 6, denom |-> "usd", chain |-> "bsc",      ext |-> "t6", dec |-> 18, rnum |-> 0, rden |-> 1,   ord |-> 1, pfx |-> {}] >>,
     out_timeout |-> 100, target_ms |-> 60000, avg_block_ms |-> 20000, avg_eth_ms |-> 20000, avg_bsc_ms |-> 20000,
     ss_window |-> 10000,
     extord |-> [e1 |-> 1, e2 |-> 4, e3 |-> 10, e4 |-> 6, e5 |-> 8, e6 |-> 12, e7 |-> 3, e8 |-> 9, e9 |-> 5],
     valrank |-> [v1 |-> 3, v2 |-> 2, v3 |-> 1]]

EmptyChain ==
    [pool |-> {}, bat |-> {}, ss |-> {}, txid |-> 0, bn |-> 0, seq |-> 0, ssn |-> 0, lon |-> 0, lohc |-> 0, lohe |-> 0,
     loss |-> <<>>, votes |-> {}, lnv |-> <<>>, sigs |-> {}, ve |-> <<>>, ov |-> <<>>, eo |-> <<>>]

InitHub ==
    [cfg |-> "static", h |-> IF Family = "registry" THEN 1 ELSE 0, t |-> IF Family = "registry" THEN 1 ELSE 0, inb |-> (Family = "registry"),
     \* (evm family: nothing is in circulation at genesis, every voucher comes from a deposit locked in the real contract)
     bal |-> [a \in {"a1", "a2", "a3", "tmp", "mod"} |-> [d \in {"hub", "usd"} |-> IF a \in {"a1", "a2"} /\ Family # "evm" THEN 1000 ELSE 0]],
     sup |-> [d \in {"hub", "usd"} |-> IF Family = "evm" THEN 0 ELSE 2000],
     stk |-> [v \in Vals |-> [b |-> TRUE, p |-> 1, j |-> FALSE, x |-> TRUE, tk |-> 1]], tot |-> 3,
     ch  |-> [c \in {"ethereum", "minter", "bsc", "hub"} |->
                IF c = "minter" /\ WithKeysAndPrices
                THEN [EmptyChain EXCEPT !.ve = [v1 |-> "e1", v2 |-> "e2", v3 |-> "e3"], !.ov = [o1 |-> "v1", o2 |-> "v2", o3 |-> "v3"],
                                        !.eo = [e1 |-> "o1", e2 |-> "o2", e3 |-> "o3"]]
                ELSE IF c = "ethereum" /\ Family = "evm"
                THEN [EmptyChain EXCEPT !.ve = [v1 |-> "e1", v2 |-> "e2", v3 |-> "e3"], !.ov = [o1 |-> "v1", o2 |-> "v2", o3 |-> "v3"],
                                        !.eo = [e1 |-> "o1", e2 |-> "o2", e3 |-> "o3"]]
                ELSE EmptyChain],
     st  |-> <<>>, fr |-> <<>>, hold |-> <<>>,
     \* prices are kept doubled (scripts/cfg_keys_prices.json: hub 1, usd 2, eth 4, bnb 1)
     pr  |-> IF WithKeysAndPrices THEN ("hub" :> 2) @@ ("usd" :> 4) @@ ("eth" :> 8) @@ ("bnb" :> 2) @@ ("ethereum/gas" :> 2) @@ ("bsc/gas" :> 2) ELSE <<>>]

InitExt == XwInit(InitHub)

Init ==
    /\ hub = InitHub
    /\ xw = InitExt
    /\ g = GhostInit(InitHub)
    /\ hist = <<>>
    /\ bad = {}
    /\ pick = ""
    /\ cnt = 0

\* ---------------------------------------------------------------- one recorded step of the hub
Do(a) ==
    LET act == [a EXCEPT !.i = cnt + 1]
        r   == Step(hub, act)
        res == [out |-> r.out, id |-> r.id]
    IN /\ hub' = r.s
       /\ hist' = IF KeepHist THEN Append(hist, act) ELSE hist
       /\ cnt' = cnt + 1
       /\ g' = GhostNext(g, hub, act, res, r.s)
       /\ bad' = StepChecks(g, hub, act, res, r.s) \cup C01Step(hub, act, r.s)

\* an action of the external world: no hub step, recorded in the script as a no-op line
ExtDo(a, newExt) ==
    /\ xw' = newExt
    /\ hist' = IF KeepHist THEN Append(hist, [a EXCEPT !.i = cnt + 1]) ELSE hist
    /\ cnt' = cnt + 1
    /\ UNCHANGED <<hub, g>>
    /\ bad' = {}

\* ---------------------------------------------------------------- user / block actions
Begin == /\ ~hub.inb /\ hub.h < MaxBlocks
         /\ \E dt \in {1, 101} : Do([k |-> "Begin", i |-> 0, dt |-> dt])
         /\ xw' = XwObserve(xw, hub')
End   == /\ hub.inb
         /\ Do([k |-> "End", i |-> 0])
         /\ xw' = XwObserve(xw, hub')

Send == /\ hub.inb /\ \A c \in SendChains : hub.ch[c].txid < MaxSends
        /\ \E from \in Users, c \in SendChains, d \in Denoms, amt \in Amts, fee \in Fees, dest \in {"e5"} :
              Do([k |-> "Send", i |-> 0, from |-> from, chain |-> c, dest |-> dest, denom |-> d, amt |-> amt, fee |-> fee])
        /\ xw' = XwObserve(xw, hub')
Cancel == /\ hub.inb
          /\ \E from \in Users, c \in SendChains : \E id \in 1..hub.ch[c].txid :
                Do([k |-> "Cancel", i |-> 0, from |-> from, chain |-> c, id |-> id])
          /\ xw' = XwObserve(xw, hub')
ReqBatch == /\ hub.inb
            /\ \E c \in SendChains, d \in Denoms :
                  Do([k |-> "ReqBatch", i |-> 0, from |-> "a1", chain |-> c, denom |-> d])
            /\ xw' = XwObserve(xw, hub')

\* ---------------------------------------------------------------- external world
NextNonce(c) == Len(xw[c].log) + 1

\* a user locks `amt` of a token in the contract / sends it to the multisig, naming a destination
ExtDeposit ==
    /\ \A c \in DepChains : Len(xw[c].log) < MaxDeposits
    /\ \E c \in DepChains, amt \in DepAmts, fee \in DepFees, rch \in DepDests, d \in Denoms :
         LET tok == TokByDenom(Cfg(hub), c, d)
             ev  == [t |-> "Deposit", n |-> NextNonce(c), tok |-> tok.ext, amt |-> amt, fee |-> fee, snd |-> "e7", rch |-> rch,
                     rcv |-> IF rch = "hub" THEN "a3" ELSE "e8", eh |-> xw[c].h + 1, txh |-> "x" \o ToString(cnt + 1)]
         IN /\ rch # c
            /\ LET act == [k |-> "ExtDeposit", i |-> 0, chain |-> c, ev |-> ev] IN ExtDo(act, XwApply(xw, act))

\* a relayer executes a stored batch on the external chain (any not yet superseded nonce, before its timeout)
ExtExec ==
    /\ \E c \in (SendChains \cup DepDests) \ {"hub"} : \E b \in (IF c = "minter" THEN hub.ch[c].bat ELSE xw[c].pub) :
         /\ ContractAccepts(xw, c, b)
         /\ \E fp \in FeePaids :
            LET ev == [t |-> "Exec", n |-> NextNonce(c), tok |-> b.tok, bn |-> b.n, eh |-> xw[c].h + 1,
                       txh |-> "x" \o ToString(cnt + 1), fp |-> fp, fpr |-> "e9"]
                paid == SumOver(b.txs, LAMBDA tr : tr.a)
                cold == SumOver(b.txs, LAMBDA tr : IF IsColdTransfer(c, tr) THEN tr.a ELSE 0)
                act == [k |-> "ExtExec", i |-> 0, chain |-> c, ev |-> ev, paid |-> paid, cold |-> cold]
            IN ExtDo(act, XwApply(xw, act))

ExtMine ==
    /\ \E c \in {"ethereum"} : xw[c].h < 6 /\ LET act == [k |-> "ExtMine", i |-> 0, chain |-> c, n |-> 3] IN ExtDo(act, XwApply(xw, act))

\* every bonded validator reports the next event of a chain's log (honest quorum, one macro step = 3 claims)
AttestNext ==
    /\ hub.inb
    /\ \E c \in SendChains \cup DepChains :
         \* the next event nobody has reported yet: several consecutive events can be reported within one block
         LET k == Max({hub.ch[c].lon} \cup {LastNonceOf(hub, c, v) : v \in Vals}) + 1 IN
         /\ k <= Len(xw[c].log)
         /\ \A v \in Vals : LastNonceOf(hub, c, v) \in {0, k - 1}
         /\ LET ev == xw[c].log[k]
                a1 == [k |-> "Claim", i |-> cnt + 1, by |-> "v1", chain |-> c, ev |-> ev]
                a2 == [k |-> "Claim", i |-> cnt + 2, by |-> "v2", chain |-> c, ev |-> ev]
                a3 == [k |-> "Claim", i |-> cnt + 3, by |-> "v3", chain |-> c, ev |-> ev]
                r1 == Step(hub, a1)
                r2 == Step(r1.s, a2)
                r3 == Step(r2.s, a3)
            IN /\ hub' = r3.s
               /\ hist' = IF KeepHist THEN hist \o <<a1, a2, a3>> ELSE hist
               /\ cnt' = cnt + 3
               /\ g' = g
               /\ bad' = StepChecks(g, hub, a1, [out |-> r1.out, id |-> 0], r1.s)
                         \cup StepChecks(g, r1.s, a2, [out |-> r2.out, id |-> 0], r2.s)
                         \cup StepChecks(g, r2.s, a3, [out |-> r3.out, id |-> 0], r3.s)
    /\ xw' = XwObserve(xw, hub')

\* ---------------------------------------------------------------- attest family: fine grained claims
ClaimEvents(c) ==
    {[t |-> "ToHub", n |-> n, tok |-> "t1", amt |-> amt, snd |-> "e7", rcv |-> "a3", eh |-> 5, txh |-> "x1"] : n \in 1..2, amt \in {5, 6}}
    \cup {[t |-> "ToHub", n |-> n, tok |-> "t1", amt |-> 5, snd |-> "e7", rcv |-> "a2", eh |-> 5, txh |-> "x1"] : n \in 1..2}     \* same deposit, another receiver
    \* a signer-set update reported with the same members and two different powers of the first member (the order is unchanged)
    \* (simulation only: the exhaustive configuration keeps the smaller alphabet)
    \cup (IF TwoLevel THEN {[t |-> "SSExec", n |-> 1, ssn |-> 1, eh |-> 5, m |-> <<<<"e1", <<p, 0>>>>, <<"e2", <<100, 0>>>>>>, txh |-> "x1"] : p \in {200, 300}}
          ELSE {})
ClaimOne ==
    /\ hub.inb
    /\ \E by \in Vals \cup {"a1"}, ev \in ClaimEvents("ethereum") :
          Do([k |-> "Claim", i |-> 0, by |-> by, chain |-> "ethereum", ev |-> ev])
    /\ xw' = XwObserve(xw, hub')
\* voting power changes take effect in the staking end blocker (modelled as part of the End step input)
StakeChange ==
    /\ hub.inb
    /\ \E v \in Vals, p \in StakePowers :
          /\ p # hub.stk[v].p
          /\ hub' = [hub EXCEPT !.stk[v].p = p, !.stk[v].b = (p > 0), !.tot = hub.tot - hub.stk[v].p + p]
          /\ hist' = IF KeepHist THEN Append(hist, [k |-> "Stake", i |-> cnt + 1, val |-> v, p |-> p]) ELSE hist
          /\ cnt' = cnt + 1
          /\ UNCHANGED <<xw, g>>
          /\ bad' = {}

\* ---------------------------------------------------------------- valset / registry family
SetKeys ==
    /\ hub.inb
    /\ \E v \in Vals, o \in Orchs, e \in Exts, c \in KeyChains, variant \in KeyVariants :
          \* "nonval": an ordinary account registers keys for itself as if it were a validator (everything else is in order)
          Do([k |-> "SetKeys", i |-> 0, val |-> IF variant = "nonval" THEN "a1" ELSE v, orch |-> o, ext |-> e, chain |-> c,
              txby   |-> IF variant \in {"wrongtx", "nonval"} THEN "a1" ELSE v,
              sigkey |-> IF variant = "wrongkey" THEN "e9" ELSE e,
              sigseq |-> IF variant \in {"stale", "toolstale"} THEN -1 ELSE 0,
              sigval |-> IF variant = "wrongval" THEN (CHOOSE w \in Vals : w # v) ELSE IF variant = "nonval" THEN "a1" ELSE v,
              \* "tool": the signature is made by the operators' real key tool (keys-generator), "toolstale": the tool with an old sequence number
              tool   |-> variant \in {"tool", "toolstale"}])
    /\ xw' = XwObserve(xw, hub')
TxRefs(c) == {[t |-> "ss", n |-> x.n] : x \in hub.ch[c].ss} \cup {[t |-> "bat", tok |-> b.tok, n |-> b.n] : b \in hub.ch[c].bat}
                \cup {[t |-> "ss", n |-> 9]}
Confirm ==
    /\ hub.inb
    /\ \E by \in Vals \cup Orchs \cup {"a1"}, c \in KeyChains : \E tx \in TxRefs(c), e \in Exts \cup {"zero"}, key \in {"same", "e9"} :
          Do([k |-> "Confirm", i |-> 0, by |-> by, chain |-> c, tx |-> tx, ext |-> e,
              key |-> IF key = "same" /\ e # "zero" THEN e ELSE "e9"])
    /\ xw' = XwObserve(xw, hub')

\* a confirmation that should be accepted: a bonded validator with a key (or its orchestrator) signs a stored tx
ConfirmGood ==
    /\ hub.inb
    /\ \E c \in KeyChains : \E v \in BondedWithKey(hub, c), tx \in TxRefs(c) :
          /\ TxExists(hub, c, tx) /\ ~Has(SigsOf(hub, c, tx), v)
          /\ \E by \in {v} \cup {o \in DOMAIN hub.ch[c].ov : hub.ch[c].ov[o] = v} :
                Do([k |-> "Confirm", i |-> 0, by |-> by, chain |-> c, tx |-> tx, ext |-> hub.ch[c].ve[v], key |-> hub.ch[c].ve[v]])
    /\ xw' = XwObserve(xw, hub')

\* two withdrawals in one transaction (all or nothing): the second one may ask for more than the sender has left
TxSends ==
    /\ hub.inb /\ \A c \in SendChains : hub.ch[c].txid + 1 < MaxSends
    /\ \E from \in Users, c2 \in SendChains, d \in Denoms, amt2 \in Amts \cup {950} :
          LET x == "h" \o ToString(cnt + 1)
              c1 == CHOOSE c \in SendChains : TRUE
              amt1 == Max(Amts)
              fee == Max(Fees)
              m1 == [k |-> "Send", i |-> 0, from |-> from, chain |-> c1, dest |-> "e5", denom |-> d, amt |-> amt1, fee |-> fee, x |-> x]
              m2 == [k |-> "Send", i |-> 0, from |-> from, chain |-> c2, dest |-> "e6", denom |-> d, amt |-> amt2, fee |-> fee, x |-> x]
          IN Do([k |-> "Tx", i |-> 0, by |-> from, msgs |-> <<m1, m2>>])
    /\ xw' = XwObserve(xw, hub')

\* a passed cold-storage proposal (governance): collateral is to be moved to the chain's cold storage address
GovCold ==
    /\ hub.inb /\ \A c \in SendChains : hub.ch[c].txid < MaxSends
    /\ \E c \in SendChains, coins \in { <<<<"hub", 50>>>>, <<<<"usd", 333>>>>, <<<<"hub", 50>>, <<"usd", 120>>>> } :
          Do([k |-> "Gov", i |-> 0, p |-> "ColdStorage", chain |-> c, coins |-> coins])
    /\ xw' = XwObserve(xw, hub')

\* macro steps (several recorded actions in one model step) that make long productive behaviours likely in simulation
DoSeq(acts) ==   \* acts: sequence of action records without index
    LET F[k \in 0..Len(acts)] ==
          IF k = 0 THEN [s |-> hub, g |-> g, bad |-> {}, hist |-> <<>>]
          ELSE LET p   == F[k - 1]
                   act == [acts[k] EXCEPT !.i = cnt + k]
                   r   == Step(p.s, act)
                   res == [out |-> r.out, id |-> r.id]
               IN [s |-> r.s, g |-> GhostNext(p.g, p.s, act, res, r.s),
                   bad |-> p.bad \cup StepChecks(p.g, p.s, act, res, r.s) \cup C01Step(p.s, act, r.s), hist |-> Append(p.hist, act)]
        f == F[Len(acts)]
    IN /\ hub' = f.s /\ g' = f.g /\ bad' = f.bad
       /\ hist' = IF KeepHist THEN hist \o f.hist ELSE hist
       /\ cnt' = cnt + Len(acts)
NextBlock ==
    /\ hub.inb /\ hub.h < MaxBlocks
    /\ \E dt \in {1, 101} : DoSeq(<<[k |-> "End", i |-> 0], [k |-> "Begin", i |-> 0, dt |-> dt]>>)
    /\ xw' = XwObserve(xw, hub')
SendBatch ==
    /\ hub.inb /\ \A c \in SendChains : hub.ch[c].txid < MaxSends
    /\ \E from \in Users, c \in SendChains, d \in Denoms, amt \in Amts, fee \in Fees :
          DoSeq(<<[k |-> "Send", i |-> 0, from |-> from, chain |-> c, dest |-> "e5", denom |-> d, amt |-> amt, fee |-> fee],
                  [k |-> "ReqBatch", i |-> 0, from |-> "a1", chain |-> c, denom |-> d]>>)
    /\ xw' = XwObserve(xw, hub')

Kinds(fam) ==
    CASE fam = "econ"   -> {"Begin", "End", "Send", "TxSends", "Cancel", "ReqBatch", "ExtDeposit", "ExtExec", "ExtMine", "AttestNext"}
      [] fam = "gov"    -> {"Begin", "End", "Send", "Cancel", "ReqBatch", "ExtDeposit", "ExtExec", "ExtMine", "AttestNext", "GovCold"}
      [] fam = "fees"   -> {"Begin", "NextBlock", "SendBatch", "Send", "ExtDeposit", "ExtExec", "AttestNext", "StakeChange"}
      [] fam = "attest" -> {"Begin", "End", "ClaimOne", "StakeChange"}
      [] fam = "registry" -> {"SetKeys"}
      [] fam = "valset" -> {"Begin", "End", "SetKeys", "Confirm", "ConfirmGood", "StakeChange", "Send", "ReqBatch"}
      [] OTHER -> {"Begin", "End"}

ActionOf(kind) ==
    CASE kind = "Begin" -> Begin [] kind = "End" -> End [] kind = "Send" -> Send [] kind = "Cancel" -> Cancel
      [] kind = "ReqBatch" -> ReqBatch [] kind = "ExtDeposit" -> ExtDeposit [] kind = "ExtExec" -> ExtExec
      [] kind = "ExtMine" -> ExtMine [] kind = "AttestNext" -> AttestNext [] kind = "ClaimOne" -> ClaimOne
      [] kind = "StakeChange" -> StakeChange [] kind = "SetKeys" -> SetKeys [] kind = "Confirm" -> Confirm [] kind = "ConfirmGood" -> ConfirmGood
      [] kind = "NextBlock" -> NextBlock [] kind = "SendBatch" -> SendBatch [] kind = "GovCold" -> GovCold [] kind = "TxSends" -> TxSends [] OTHER -> FALSE

Next ==
    /\ cnt < MaxLen
    /\ IF ~TwoLevel
       THEN (\E kind \in Kinds(Family) : ActionOf(kind)) /\ pick' = ""
       ELSE IF pick = ""
            THEN /\ \E kind \in Kinds(Family) : ENABLED ActionOf(kind) /\ pick' = kind
                 /\ UNCHANGED <<hub, xw, g, hist, bad, cnt>>
            ELSE ActionOf(pick) /\ pick' = ""

Spec == Init /\ [][Next]_vars

\* the history is output only: states that differ in it alone are the same state
View == <<hub, xw, g, bad>>

\* ---------------------------------------------------------------- invariants
\* with KeepHist a violating behaviour is written out as a script ($VERIF_CEX) for replay on the real code
DumpCex == IF KeepHist THEN JsonSerialize(IOEnv.VERIF_CEX, hist) ELSE TRUE
NoStepViolation == (\A f \in bad : f[1] \notin WatchNames \/ Excused(f)) \/ (DumpCex /\ FALSE)

Solvency == SolventG(hub, xw, g) \/ (DumpCex /\ FALSE)

\* ---------------------------------------------------------------- script output (simulation mode)
\* one file per behaviour: $VERIF_OUT/s<k>.json, k = number of the behaviour in this simulation run
\* (exhaustive mode with KeepHist and no VIEW: every maximal behaviour of the bounded model is written, numbered by
\*  the count of distinct states found so far; needs -workers 1)
Emit == IF EmitScripts /\ cnt >= MaxLen
        THEN JsonSerialize(IOEnv.VERIF_OUT \o "/s" \o ToString(IF TwoLevel THEN TLCGet("stats").traces ELSE TLCGet("distinct")) \o ".json", hist)
        ELSE TRUE

=============================================================================
