------------------------------- MODULE MC_Evm -------------------------------
(***************************************************************************)
(* Bounded model of the hub together with the Hub2 contract model and an   *)
(* adversarial relayer (family "evm"): the relayer submits any stored (or  *)
(* once published) signer set / batch with any subset of the recorded      *)
(* confirmations, users lock tokens in the contract, validators report the *)
(* contract's events (by reference to its log), stake changes, sends,      *)
(* batches, blocks.  In simulation mode the behaviours are replayed on the *)
(* real application + the REAL contract bytecode on a simulated EVM.       *)
(***************************************************************************)
EXTENDS MC_Hub, Hub2

VARIABLE kx      \* the contract: [blk, vsn, evn, set, lbn, cust, thr]
evars == <<hub, xw, g, hist, bad, pick, cnt, kx>>

\* scripts/cfg_evm.json: a batch lives 60 external blocks (the simulated chain mines a block per transaction)
EvmCfg == [DefaultCfg EXCEPT !.target_ms = 1200000]

CONSTANT EvmChain     \* the chain backed by the real contract: "ethereum" or "bsc"
C == EvmChain
EvmToks == IF C = "ethereum" THEN {"t1", "t4"} ELSE {"t3", "t6"}
\* the genesis of the evm family registers the validators' keys for the chain of the contract
KeysAt(h0, vs) ==
    LET ext == [v1 |-> "e1", v2 |-> "e2", v3 |-> "e3"]
        orc == [v1 |-> "o1", v2 |-> "o2", v3 |-> "o3"]
        clean == [h0 EXCEPT !.ch["ethereum"] = EmptyChain]
    IN [clean EXCEPT !.ch[C] = [EmptyChain EXCEPT !.ve = [v \in vs |-> ext[v]],
                                                  !.ov = [o \in {orc[v] : v \in vs} |-> CHOOSE v \in vs : orc[v] = o],
                                                  !.eo = [e \in {ext[v] : v \in vs} |-> orc[CHOOSE v \in vs : ext[v] = e]]]]
Thr == <<43690, 43690>>          \* 2863311530 = two thirds of 2^32

\* the constructor's ValsetUpdatedEvent (valset nonce 0, event nonce 1) is the first event validators report
Ev0Of(h0) == [t |-> "SSExec", n |-> 1, ssn |-> 0, eh |-> 4, m |-> SortedMembers(Cfg(h0), CurrentSigners(h0, C)), txh |-> "x0"]
InitEvmWith(h0) ==
    /\ hub = h0 /\ g = GhostInit(h0) /\ hist = <<>> /\ bad = {} /\ pick = "" /\ cnt = 0
    /\ xw = [XwInit(h0) EXCEPT ![C].log = <<Ev0Of(h0)>>, ![C].h = 4]
    /\ kx = [blk |-> 4, vsn |-> 0, evn |-> 1, thr |-> Thr, lbn |-> <<>>, cust |-> <<>>,
             set |-> [n |-> 0, m |-> SortedMembers(Cfg(h0), CurrentSigners(h0, C))]]
InitEvm == InitEvmWith(KeysAt(InitHub, Vals))
\* scripts/cfg_evm2.json: v3 is bonded but has registered no key for the chain (it still votes on events)
InitHub2 == KeysAt(InitHub, {"v1", "v2"})
InitEvm2 == InitEvmWith(InitHub2)

\* an action of the external chain: recorded in the script, no hub step
EvmDo(act, kx2, xw2) ==
    /\ kx' = kx2 /\ xw' = xw2
    /\ hist' = IF KeepHist THEN Append(hist, [act EXCEPT !.i = cnt + 1]) ELSE hist
    /\ cnt' = cnt + 1 /\ bad' = {}
    /\ UNCHANGED <<hub, g>>

Emit1(ev) == [xw EXCEPT ![C].log = Append(@, ev), ![C].h = ev.eh]

EvmDeposit ==
    \E tok \in EvmToks, amt \in {500, 70}, fee \in {0, 5} :
       LET blk == kx.blk + 3        \* wrap, approve, transferToChain: one block each
           ev  == [t |-> "Deposit", n |-> kx.evn + 1, tok |-> tok, amt |-> amt, fee |-> fee, snd |-> "e7", rch |-> "hub", rcv |-> "a3",
                   eh |-> blk, txh |-> "x" \o ToString(cnt + 1)]
       IN EvmDo([k |-> "EvmDeposit", i |-> 0, chain |-> C, user |-> "e7", tok |-> tok, rch |-> "hub", rcv |-> "a3", amt |-> amt, fee |-> fee],
                [kx EXCEPT !.blk = blk, !.evn = @ + 1, !.cust = Put(@, tok, Get(@, tok, 0) + amt)], Emit1(ev))

\* which members of the contract's current set have a (valid) confirmation among the chosen validators' ones
Marks(tx, who) ==
    LET by == SigsOf(hub, C, tx) IN
    [i \in DOMAIN kx.set.m |->
        LET A == kx.set.m[i][1]
            vs == {v \in DOMAIN by : v \in who /\ Get(hub.ch[C].ve, v, "") = A}
        IN IF vs = {} THEN "none" ELSE IF \E v \in vs : by[v] = A THEN "ok" ELSE "bad"]

SigSubsets == {{"v1", "v2", "v3"}, {"v1", "v2"}, {"v2", "v3"}, {"v1"}, {}}

EvmUpdateValset ==
    \E ss \in hub.ch[C].ss, who \in SigSubsets :
       LET tx  == [t |-> "ss", n |-> ss.n]
           ok  == UpdateAccepts(kx, ss.n, kx.set, Marks(tx, who))
           act == [k |-> "EvmUpdateValset", i |-> 0, chain |-> C, n |-> ss.n, sigs |-> SetToSeq(who)]
           ev  == [t |-> "SSExec", n |-> kx.evn + 1, ssn |-> ss.n, eh |-> kx.blk + 1, m |-> ss.m, txh |-> "x" \o ToString(cnt + 1)]
       IN IF ok THEN EvmDo(act, AfterUpdate(kx, [n |-> ss.n, m |-> ss.m]), Emit1(ev))
          ELSE EvmDo(act, [kx EXCEPT !.blk = @ + 1], xw)

EvmSubmitBatch ==
    \E b \in hub.ch[C].bat \cup xw[C].pub, who \in SigSubsets :
       LET tx  == [t |-> "bat", tok |-> b.tok, n |-> b.n]
           ok  == BatchAccepts(kx, kx.set, Marks(tx, who), b)
           act == [k |-> "EvmSubmitBatch", i |-> 0, chain |-> C, tok |-> b.tok, n |-> b.n, sigs |-> SetToSeq(who)]
           ev  == [t |-> "Exec", n |-> kx.evn + 1, tok |-> b.tok, bn |-> b.n, eh |-> kx.blk + 1, txh |-> "x" \o ToString(cnt + 1), fp |-> 1, fpr |-> "e9"]
       IN IF ok THEN EvmDo(act, AfterBatch(kx, b), [Emit1(ev) EXCEPT ![C].done = @ \cup {<<b.tok, b.n>>}, ![C].lbn[b.tok] = b.n])
          ELSE EvmDo(act, [kx EXCEPT !.blk = @ + 1], xw)

EvmMine == kx.blk < 40 /\ EvmDo([k |-> "EvmMine", i |-> 0, chain |-> C, n |-> 4], [kx EXCEPT !.blk = @ + 4], xw)

\* all bonded validators report the next event of the contract's log, by reference
AttestRef ==
    /\ hub.inb
    /\ LET k == Max({hub.ch[C].lon} \cup {LastNonceOf(hub, C, v) : v \in Vals}) + 1 IN
       /\ k <= Len(xw[C].log)
       /\ \A v \in Vals : LastNonceOf(hub, C, v) \in {0, k - 1}
       /\ LET ev == xw[C].log[k]
              cl(v) == [k |-> "Claim", i |-> 0, by |-> v, chain |-> C, ev |-> ev]
              r1 == Step(hub, cl("v1"))
              r2 == Step(r1.s, cl("v2"))
              r3 == Step(r2.s, cl("v3"))
              ref(v, j) == [k |-> "Claim", i |-> cnt + j, by |-> v, chain |-> C, ev |-> [ref |-> k]]
          IN /\ hub' = r3.s
             /\ hist' = IF KeepHist THEN hist \o <<ref("v1", 1), ref("v2", 2), ref("v3", 3)>> ELSE hist
             /\ cnt' = cnt + 3 /\ g' = g /\ bad' = {}
    /\ xw' = XwObserve(xw, hub') /\ UNCHANGED kx

\* every bonded validator with a key confirms one stored outgoing tx it has not confirmed yet
ConfirmAll ==
    /\ hub.inb
    /\ \E tx \in TxRefs(C) :
         LET vs == {v \in BondedWithKey(hub, C) : ~Has(SigsOf(hub, C, tx), v)} IN
         /\ TxExists(hub, C, tx) /\ vs # {}
         /\ DoSeq([i \in 1..Cardinality(vs) |->
                     LET v == SetToSeq(vs)[i] IN
                     [k |-> "Confirm", i |-> 0, by |-> v, chain |-> C, tx |-> tx, ext |-> hub.ch[C].ve[v], key |-> hub.ch[C].ve[v]]])
    /\ xw' = XwObserve(xw, hub')

HubKind(A) == A /\ UNCHANGED kx

EvmKinds == {"Begin", "NextBlock", "ConfirmGood", "ConfirmAll", "StakeChange", "SendBatch", "EvmDeposit", "EvmUpdateValset", "EvmSubmitBatch", "EvmMine", "AttestRef"}
EvmAction(kind) ==
    CASE kind = "EvmDeposit" -> EvmDeposit [] kind = "EvmUpdateValset" -> EvmUpdateValset [] kind = "EvmSubmitBatch" -> EvmSubmitBatch
      [] kind = "EvmMine" -> EvmMine [] kind = "AttestRef" -> AttestRef [] kind = "ConfirmAll" -> HubKind(ConfirmAll)
      [] OTHER -> HubKind(ActionOf(kind))

NextEvm ==
    /\ cnt < MaxLen
    /\ IF ~TwoLevel THEN (\E kind \in EvmKinds : EvmAction(kind)) /\ pick' = ""
       ELSE IF pick = ""
       THEN /\ \E kind \in EvmKinds : ENABLED EvmAction(kind) /\ pick' = kind
            /\ UNCHANGED <<hub, xw, g, hist, bad, cnt, kx>>
       ELSE EvmAction(pick) /\ pick' = ""

SpecEvm == InitEvm /\ [][NextEvm]_evars
SpecEvm2 == InitEvm2 /\ [][NextEvm]_evars
ViewEvm == <<hub, xw, g, bad, kx>>

\* design-level invariants of the combined system
\* the hub never runs ahead of the contract
InStepInv ==
    /\ hub.ch[C].lon <= kx.evn
    /\ hub.ch[C].loss # <<>> => hub.ch[C].loss.n <= kx.vsn
    /\ (hub.ch[C].lon = kx.evn /\ hub.ch[C].loss # <<>>) => (hub.ch[C].loss.n = kx.vsn /\ hub.ch[C].loss.m = kx.set.m)
\* the model's external log is the contract's event sequence
LogInv == Len(xw[C].log) = kx.evn /\ \A i \in DOMAIN xw[C].log : xw[C].log[i].n = i
\* a batch the hub withdrew can never be executed by the contract afterwards
WithdrawnNeverExecutable == \A b \in xw[C].pub : <<b.tok, b.n>> \in g.wd[C] => ~ContractAccepts([xw EXCEPT ![C].h = kx.blk], C, b) \/ b.n <= Get(kx.lbn, b.tok, 0)
\* solvency against the contract's custody
SolvencyEvm == Solvent(hub, [xw EXCEPT ![C].cust = [t \in DOMAIN @ |-> Get(kx.cust, t, 0)]])
=============================================================================
