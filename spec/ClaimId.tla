------------------------------ MODULE ClaimId ------------------------------
(***************************************************************************)
(* C14: votes aggregate only on identical events.                          *)
(*                                                                         *)
(* For every event type the module lists the fields that influence the     *)
(* event's effect when it is applied (read off ExternalEventProcessor.     *)
(* Handle and batchTxExecuted) and defines the claim identifier over them. *)
(* TLC enumerates                                                          *)
(*   - every pair of events of one type and nonce that differ in exactly   *)
(*     one effect-relevant field (value drawn from a small domain per      *)
(*     field), and                                                         *)
(*   - every pair whose adjacent variable-length fields are shifted across *)
(*     the field boundary (coin id "1" + amount bytes 0x32.. against coin  *)
(*     id "12" + amount bytes ..),                                         *)
(* checks on the specification that their identifiers differ, and writes   *)
(* the pairs out; the harness computes the real Hash() of both members of  *)
(* every pair and submits them through two validators.                     *)
(***************************************************************************)
EXTENDS Integers, Sequences, FiniteSets, SequencesExt, TLC, Json, IOUtils

CONSTANT Dev

\* ---- field domains (model names; the harness maps them to real values)
Types == {"Deposit", "ToHub", "Exec", "SSExec", "CCExec"}

Fields(t) ==
    CASE t = "Deposit" -> <<"n", "tok", "amt", "fee", "snd", "rcv", "rch", "eh", "txh">>
      [] t = "ToHub"   -> <<"n", "tok", "amt", "snd", "rcv", "eh", "txh">>
      [] t = "Exec"    -> <<"n", "tok", "bn", "eh", "txh", "fp", "fpr">>
      [] t = "SSExec"  -> <<"n", "ssn", "eh", "m", "txh">>
      [] t = "CCExec"  -> <<"n", "scope", "in", "eh", "txh">>

\* the fields the implementation's Hash() covers today (deviation HashOmitsFields) -- everything else is omitted
HashedToday(t) ==
    CASE t = "Deposit" -> {"n", "tok", "amt", "rcv", "rch", "eh"}        \* Sender is dropped for 0x-prefixed strings
      [] t = "ToHub"   -> {"n", "tok", "amt", "rcv", "eh"}
      [] t = "Exec"    -> {"n", "tok", "bn", "eh"}
      [] t = "SSExec"  -> {"n", "ssn", "eh", "m"}
      [] t = "CCExec"  -> {"n", "scope", "in", "eh"}

\* two values per field: the base value and one alternative
Base(t, f) ==
    CASE f = "n" -> 1 [] f = "tok" -> IF t = "Exec" THEN "t1" ELSE "t1" [] f = "amt" -> 50 [] f = "fee" -> 2
      [] f = "snd" -> "e6" [] f = "rcv" -> (IF t = "ToHub" THEN "a1" ELSE "e5") [] f = "rch" -> "minter"
      [] f = "eh" -> 7 [] f = "txh" -> "x1" [] f = "bn" -> 1 [] f = "fp" -> 3 [] f = "fpr" -> "e9"
      [] f = "ssn" -> 2 [] f = "m" -> <<<<"e1", <<40000, 0>>>>, <<"e2", <<25535, 65535>>>>>>
      [] f = "scope" -> "scopeA" [] f = "in" -> 1
Alt(t, f) ==
    CASE f = "n" -> 2 [] f = "tok" -> "t4" [] f = "amt" -> 51 [] f = "fee" -> 3
      [] f = "snd" -> "e7" [] f = "rcv" -> (IF t = "ToHub" THEN "a2" ELSE "e8") [] f = "rch" -> "bsc"
      [] f = "eh" -> 8 [] f = "txh" -> "x2" [] f = "bn" -> 2 [] f = "fp" -> 4 [] f = "fpr" -> "e8"
      [] f = "ssn" -> 3 [] f = "m" -> <<<<"e1", <<40000, 0>>>>, <<"e3", <<25535, 65535>>>>>>
      [] f = "scope" -> "scopeB" [] f = "in" -> 2

FieldSet(t) == {Fields(t)[i] : i \in DOMAIN Fields(t)}
BaseEvent(t) == [f \in FieldSet(t) \cup {"t"} |-> IF f = "t" THEN t ELSE Base(t, f)]
Mutant(t, f) == [BaseEvent(t) EXCEPT ![f] = Alt(t, f)]

\* the claim identifier: the tuple of hashed fields, in declaration order
Hashed(t) == IF "HashOmitsFields" \in Dev THEN HashedToday(t) ELSE FieldSet(t)
Id(e) == [f \in Hashed(e.t) |-> e[f]]

\* single-field mutation pairs.  The nonce is part of the store key next to the hash, so a pair that differs
\* in the nonce is never tallied together whatever the hash is; it is enumerated for completeness.
MutationPairs == {[kind |-> "field", t |-> t, field |-> f, a |-> BaseEvent(t), b |-> Mutant(t, f)] : t \in Types, f \in UNION {FieldSet(t) : t \in Types}}
WellFormed(p) == p.field \in FieldSet(p.t)

\* boundary-shift pairs: the implementation concatenates variable-length fields without delimiters.  Each pair
\* names two events whose byte strings coincide under plain concatenation although the fields differ.
ShiftPairs ==
    { [kind |-> "shift", t |-> "Deposit", field |-> "tok|amt", note |-> "minter coin 1 + amount 0x32 0x05 against coin 12 + amount 0x05",
       chain |-> "minter",
       a |-> [BaseEvent("Deposit") EXCEPT !.tok = "1", !.amt = 12805, !.rch = "ethereum"],
       b |-> [BaseEvent("Deposit") EXCEPT !.tok = "12", !.amt = 5, !.rch = "ethereum"]],
      [kind |-> "shift", t |-> "ToHub", field |-> "tok|amt", note |-> "minter coin 1 + amount 0x32 0x05 against coin 12 + amount 0x05",
       chain |-> "minter",
       a |-> [BaseEvent("ToHub") EXCEPT !.tok = "1", !.amt = 12805],
       b |-> [BaseEvent("ToHub") EXCEPT !.tok = "12", !.amt = 5]],
      \* an empty variable-length field next to a non-empty one (the external tx hash and the fee payer may be empty):
      \* the same bytes, one field boundary further
      [kind |-> "shift", t |-> "Exec", field |-> "txh|fp|fpr", note |-> "empty tx hash + fee 5 + payer '7' against tx hash '5' + fee 7 + empty payer",
       chain |-> "ethereum",
       a |-> [BaseEvent("Exec") EXCEPT !.txh = "raw:", !.fp = 5, !.fpr = "raw:7"],
       b |-> [BaseEvent("Exec") EXCEPT !.txh = "raw:5", !.fp = 7, !.fpr = "raw:"]],
      [kind |-> "shift", t |-> "Deposit", field |-> "rch|eh|txh", note |-> "empty receiver chain + height = bytes 'ethereum' + tx hash '0xabcdef' against chain 'ethereum' + height = bytes '0xabcdef' + empty tx hash",
       chain |-> "ethereum",
       a |-> [BaseEvent("Deposit") EXCEPT !.rch = "", !.eh = "7310315566637742445", !.txh = "raw:0xabcdef"],
       b |-> [BaseEvent("Deposit") EXCEPT !.rch = "ethereum", !.eh = "3492891145076663654", !.txh = "raw:"]],
      [kind |-> "shift", t |-> "CCExec", field |-> "scope|txh", note |-> "empty invalidation scope against empty tx hash",
       chain |-> "ethereum",
       a |-> [BaseEvent("CCExec") EXCEPT !.scope = "", !.txh = "raw:abc"],
       b |-> [BaseEvent("CCExec") EXCEPT !.scope = "abc", !.txh = "raw:"]],
      [kind |-> "shift", t |-> "Deposit", field |-> "rcv|rch", note |-> "receiver chain 'bsc' against receiver chain 'b' cannot be shifted into a 42 character receiver: kept as a negative control",
       chain |-> "ethereum",
       a |-> [BaseEvent("Deposit") EXCEPT !.rch = "bsc"],
       b |-> [BaseEvent("Deposit") EXCEPT !.rch = "minter"]] }

\* wrap-around pairs: big-integer fields that differ by a power of two (a hash over a narrowed integer would not see it)
WrapPairs ==
    { [kind |-> "wrap", t |-> "Deposit", field |-> "amt", note |-> "the value plus 2^32 (an integer narrowed to 32 bits before hashing gives the same bytes)", chain |-> "ethereum",
       a |-> BaseEvent("Deposit"), b |-> [BaseEvent("Deposit") EXCEPT !.amt = "4294967346"]],
      [kind |-> "wrap", t |-> "Deposit", field |-> "amt", note |-> "the value plus 2^64 (an integer narrowed to 64 bits before hashing gives the same bytes)", chain |-> "ethereum",
       a |-> BaseEvent("Deposit"), b |-> [BaseEvent("Deposit") EXCEPT !.amt = "18446744073709551666"]],
      [kind |-> "wrap", t |-> "Deposit", field |-> "amt", note |-> "the value plus 2^128 (an integer narrowed to 128 bits before hashing gives the same bytes)", chain |-> "ethereum",
       a |-> BaseEvent("Deposit"), b |-> [BaseEvent("Deposit") EXCEPT !.amt = "340282366920938463463374607431768211506"]],
      [kind |-> "wrap", t |-> "Deposit", field |-> "fee", note |-> "the value plus 2^32 (an integer narrowed to 32 bits before hashing gives the same bytes)", chain |-> "ethereum",
       a |-> BaseEvent("Deposit"), b |-> [BaseEvent("Deposit") EXCEPT !.fee = "4294967298"]],
      [kind |-> "wrap", t |-> "Deposit", field |-> "fee", note |-> "the value plus 2^64 (an integer narrowed to 64 bits before hashing gives the same bytes)", chain |-> "ethereum",
       a |-> BaseEvent("Deposit"), b |-> [BaseEvent("Deposit") EXCEPT !.fee = "18446744073709551618"]],
      [kind |-> "wrap", t |-> "Deposit", field |-> "fee", note |-> "the value plus 2^128 (an integer narrowed to 128 bits before hashing gives the same bytes)", chain |-> "ethereum",
       a |-> BaseEvent("Deposit"), b |-> [BaseEvent("Deposit") EXCEPT !.fee = "340282366920938463463374607431768211458"]],
      [kind |-> "wrap", t |-> "ToHub", field |-> "amt", note |-> "the value plus 2^32 (an integer narrowed to 32 bits before hashing gives the same bytes)", chain |-> "ethereum",
       a |-> BaseEvent("ToHub"), b |-> [BaseEvent("ToHub") EXCEPT !.amt = "4294967346"]],
      [kind |-> "wrap", t |-> "ToHub", field |-> "amt", note |-> "the value plus 2^64 (an integer narrowed to 64 bits before hashing gives the same bytes)", chain |-> "ethereum",
       a |-> BaseEvent("ToHub"), b |-> [BaseEvent("ToHub") EXCEPT !.amt = "18446744073709551666"]],
      [kind |-> "wrap", t |-> "ToHub", field |-> "amt", note |-> "the value plus 2^128 (an integer narrowed to 128 bits before hashing gives the same bytes)", chain |-> "ethereum",
       a |-> BaseEvent("ToHub"), b |-> [BaseEvent("ToHub") EXCEPT !.amt = "340282366920938463463374607431768211506"]],
      [kind |-> "wrap", t |-> "Exec", field |-> "fp", note |-> "the value plus 2^32 (an integer narrowed to 32 bits before hashing gives the same bytes)", chain |-> "ethereum",
       a |-> BaseEvent("Exec"), b |-> [BaseEvent("Exec") EXCEPT !.fp = "4294967299"]],
      [kind |-> "wrap", t |-> "Exec", field |-> "fp", note |-> "the value plus 2^64 (an integer narrowed to 64 bits before hashing gives the same bytes)", chain |-> "ethereum",
       a |-> BaseEvent("Exec"), b |-> [BaseEvent("Exec") EXCEPT !.fp = "18446744073709551619"]],
      [kind |-> "wrap", t |-> "Exec", field |-> "fp", note |-> "the value plus 2^128 (an integer narrowed to 128 bits before hashing gives the same bytes)", chain |-> "ethereum",
       a |-> BaseEvent("Exec"), b |-> [BaseEvent("Exec") EXCEPT !.fp = "340282366920938463463374607431768211459"]] }

\* members of a signer-set event: the same addresses with another power (the order by power is unchanged), a member more
MemberPairs ==
    { [kind |-> "field", t |-> "SSExec", field |-> "m", a |-> BaseEvent("SSExec"),
       b |-> [BaseEvent("SSExec") EXCEPT !.m = <<<<"e1", <<40000, 0>>>>, <<"e2", <<25535, 65534>>>>>>]],
      [kind |-> "field", t |-> "SSExec", field |-> "m", a |-> BaseEvent("SSExec"),
       b |-> [BaseEvent("SSExec") EXCEPT !.m = <<<<"e1", <<40001, 0>>>>, <<"e2", <<25535, 65535>>>>>>]],
      [kind |-> "field", t |-> "SSExec", field |-> "m", a |-> BaseEvent("SSExec"),
       b |-> [BaseEvent("SSExec") EXCEPT !.m = <<<<"e1", <<40000, 0>>>>, <<"e2", <<25535, 65535>>>>, <<"e3", <<0, 0>>>>>>]] }

\* spelling pairs: the external tx hash is kept and used as the reporter wrote it (status record key, recorded on the
\* transfer), so two spellings of one hash are two different reports (an identifier over a normalised hash merges them)
SpellPairs ==
    UNION { { [kind |-> "spell", t |-> t, field |-> "txh", note |-> "the same hex digits in lower and in upper case", chain |-> "ethereum",
               a |-> [BaseEvent(t) EXCEPT !.txh = "raw:0xabcdef0123456789abcdef0123456789abcdef0123456789abcdef0123456789"],
               b |-> [BaseEvent(t) EXCEPT !.txh = "raw:0xABCDEF0123456789ABCDEF0123456789ABCDEF0123456789ABCDEF0123456789"]],
              [kind |-> "spell", t |-> t, field |-> "txh", note |-> "with and without the 0x prefix", chain |-> "ethereum",
               a |-> [BaseEvent(t) EXCEPT !.txh = "raw:0xabcdef0123456789abcdef0123456789abcdef0123456789abcdef0123456789"],
               b |-> [BaseEvent(t) EXCEPT !.txh = "raw:abcdef0123456789abcdef0123456789abcdef0123456789abcdef0123456789"]],
              [kind |-> "spell", t |-> t, field |-> "txh", note |-> "a trailing blank", chain |-> "ethereum",
               a |-> [BaseEvent(t) EXCEPT !.txh = "raw:0xabcdef0123456789abcdef0123456789abcdef0123456789abcdef0123456789"],
               b |-> [BaseEvent(t) EXCEPT !.txh = "raw:0xabcdef0123456789abcdef0123456789abcdef0123456789abcdef0123456789 "]] } : t \in Types }

Pairs == {p \in MutationPairs : WellFormed(p)} \cup ShiftPairs \cup WrapPairs \cup MemberPairs \cup SpellPairs

\* ---- the model: one state per pair; the invariant is the property on the specification's identifier
VARIABLE pair
Init == pair \in Pairs
Next == UNCHANGED pair
Spec == Init /\ [][Next]_pair

\* (shift and wrap pairs mix integers and decimal strings in one field: their identifiers are not compared in TLC,
\*  the real hashes are)
DistinctIds == (pair.kind \in {"shift", "wrap"}) \/ (pair.a # pair.b => Id(pair.a) # Id(pair.b))

\* vectors for the harness (evaluated once)
ASSUME IF "VERIF_OUT" \in DOMAIN IOEnv THEN JsonSerialize(IOEnv.VERIF_OUT, SetToSeq(Pairs)) ELSE TRUE
=============================================================================
