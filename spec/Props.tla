------------------------------ MODULE Props ------------------------------
(***************************************************************************)
(* The listed properties as predicates over one step                       *)
(*      pre --a/res--> post                                                *)
(* of the hub (plus a small ghost record g that remembers terminal         *)
(* transfers).  The same predicates are evaluated                          *)
(*   - by TLC on every transition of the bounded models (MC_Hub), and      *)
(*   - by TLC on every step of every trace recorded from the real code     *)
(*     (Trace).                                                            *)
(* Each operator returns the set of names of the checks that FAIL.         *)
(***************************************************************************)
EXTENDS Hub

Fail(cond, name, detail) == IF cond THEN {<<name, detail>>} ELSE {}

Chains(s) == DOMAIN s.ch
BatchedTrs(s, c) == UNION {RangeOf(b.txs) : b \in s.ch[c].bat}
PoolIds(s, c)    == {tr.id : tr \in s.ch[c].pool}
BatchIds(s, c)   == {tr.id : tr \in BatchedTrs(s, c)}
LiveIds(s, c)    == PoolIds(s, c) \cup BatchIds(s, c)
LiveTrs(s, c)    == s.ch[c].pool \cup BatchedTrs(s, c)
TrById(s, c, id) == CHOOSE tr \in LiveTrs(s, c) : tr.id = id

NewlyAccepted(pre, post, c) ==
    {r \in post.ch[c].votes : r.acc /\ ~\E q \in pre.ch[c].votes : q.n = r.n /\ q.cid = r.cid /\ q.acc}
AppliedEvents(pre, post, c) == {r.ev : r \in NewlyAccepted(pre, post, c)}

\* ---------------------------------------------------------------- ghost state
\* g.term[c] : ids that reached a terminal state (executed or refunded) on chain c
\* g.ref[c]  : ids refunded;  g.exe[c] : ids executed
\* g.taken[c] : id -> hub-unit amount debited from the sender when the transfer was accepted (hub-origin sends)
\* g.wd[c]    : <<token, nonce>> of batches the hub withdrew without an observed execution
GhostInit(s) == [ref |-> [c \in Chains(s) |-> {}], exe |-> [c \in Chains(s) |-> {}], taken |-> [c \in Chains(s) |-> <<>>], wd |-> [c \in Chains(s) |-> {}],
                 cold |-> [d \in DOMAIN s.sup |-> 0],
                 \* external height of the last APPLIED event per chain (what "observed" means in C13)
                 obs |-> [c \in Chains(s) |-> s.ch[c].lohe]]

HubValue(s, c, tr) == LET tok == TokByExt(Cfg(s), c, tr.tok) IN ConvDec(tok.dec, 18, tr.a + tr.f + tr.c)
DenomOfTr(s, c, tr) == TokByExt(Cfg(s), c, tr.tok).denom
\* cold-storage transfers that leave the live set in this step without being executed (expiry refund)
ColdRefundedNow(pre, post, c, d) ==
    {tr \in LiveTrs(pre, c) : IsColdTransfer(c, tr) /\ DenomOfTr(pre, c, tr) = d /\ tr.id \notin LiveIds(post, c)
                               /\ ~\E ev \in AppliedEvents(pre, post, c) : ev.t = "Exec" /\ \E b \in pre.ch[c].bat : b.tok = ev.tok /\ b.n = ev.bn /\ tr \in RangeOf(b.txs)}
\* transfers of batch (tok, n) in the pre-state that an applied Exec event of this step names
ExecutedNow(pre, post, c) ==
    UNION {RangeOf(b.txs) : b \in {b \in pre.ch[c].bat : \E ev \in AppliedEvents(pre, post, c) : ev.t = "Exec" /\ ev.tok = b.tok /\ ev.bn = b.n}}

Expired(s, tr, tNow) == tr.ct + Cfg(s).out_timeout < tNow
\* transfers of batches that disappear in this step without being executed (released back to the pool); a transfer
\* released at the start of an End step can expire in the very same step
ReleasedNow(pre, post, c) ==
    UNION {RangeOf(b.txs) : b \in {b \in pre.ch[c].bat : ~\E o \in post.ch[c].bat : o.n = b.n /\ o.tok = b.tok}} \ ExecutedNow(pre, post, c)

GhostNext(g, pre, a, res, post) ==
    [ref |-> [c \in Chains(post) |->
                g.ref[c] \cup {id \in LiveIds(pre, c) \ LiveIds(post, c) : id \notin {tr.id : tr \in ExecutedNow(pre, post, c)}}],
     exe |-> [c \in Chains(post) |-> g.exe[c] \cup {tr.id : tr \in ExecutedNow(pre, post, c) \cap LiveTrs(pre, c)}],
     taken |-> [c \in Chains(post) |->
                 IF a.k = "Send" /\ res.out = "ok" /\ a.chain = c THEN Put(g.taken[c], res.id, a.amt + a.fee)
                 \* an accepted multi-message transaction: its sends to c got the next transfer ids of c, in message order
                 ELSE IF a.k = "Tx" /\ res.out = "ok"
                 THEN LET sends == SelectSeq(a.msgs, LAMBDA m : m.k = "Send" /\ m.chain = c)
                      IN FoldLeft(LAMBDA acc, j : Put(acc, pre.ch[c].txid + j, sends[j].amt + sends[j].fee), g.taken[c], [j \in DOMAIN sends |-> j])
                 ELSE g.taken[c]],
     wd |-> [c \in Chains(post) |->
                 g.wd[c] \cup {<<b.tok, b.n>> : b \in {b \in pre.ch[c].bat : (~\E o \in post.ch[c].bat : o.n = b.n /\ o.tok = b.tok)
                                                                  /\ ~\E ev \in AppliedEvents(pre, post, c) : ev.t = "Exec" /\ ev.tok = b.tok /\ ev.bn = b.n}}],
     obs |-> [c \in Chains(post) |->
                 LET ap == AppliedEvents(pre, post, c) IN
                 IF ap = {} THEN g.obs[c] ELSE (CHOOSE ev \in ap : \A o \in ap : o.n <= ev.n).eh],
     \* value of the cold-storage transfers (governance) that were refunded to the transit account instead of being executed
     cold |-> [d \in DOMAIN post.sup |->
                 g.cold[d] + (IF "ColdRefundToTransit" \in Dev THEN 1 ELSE 0) * FoldSet(LAMBDA c, acc : acc + FoldSet(LAMBDA tr, a2 : a2 + HubValue(pre, c, tr), 0, ColdRefundedNow(pre, post, c, d)), 0, Chains(pre) \ {"hub"})]]

\* ---------------------------------------------------------------- C04  a transfer is in exactly one place
C04Checks(g, pre, a, res, post) ==
    UNION {
       \* never in the pool and in a batch, never in two batches, ids unique
       Fail(PoolIds(post, c) \cap BatchIds(post, c) # {}, "C04:PoolAndBatch", c)
  \cup Fail(Cardinality(LiveTrs(post, c)) # Cardinality(LiveIds(post, c)), "C04:DuplicateId", c)
  \cup Fail(\E b1, b2 \in post.ch[c].bat : b1 # b2 /\ {tr.id : tr \in RangeOf(b1.txs)} \cap {tr.id : tr \in RangeOf(b2.txs)} # {}, "C04:TwoBatches", c)
  \cup Fail(\E b \in post.ch[c].bat : Cardinality({tr.id : tr \in RangeOf(b.txs)}) # Len(b.txs), "C04:TwiceInBatch", c)
       \* a terminal transfer never comes back
  \cup Fail(LiveIds(post, c) \cap (g.ref[c] \cup g.exe[c]) # {}, "C04:Resurrected", c)
       \* new ids are fresh and increasing
  \cup Fail(\E id \in LiveIds(post, c) \ LiveIds(pre, c) : id <= pre.ch[c].txid, "C04:IdReused", c)
  \cup Fail(post.ch[c].txid < pre.ch[c].txid, "C04:IdCounterDecreased", c)
       \* a transfer disappears only by execution (applied Exec naming its batch) or refund (cancel by its
       \* sender while unbatched, or expiry at the end of a block)
  \cup Fail(\E id \in LiveIds(pre, c) \ LiveIds(post, c) :
              LET tr == TrById(pre, c, id) IN
              ~ \/ tr \in ExecutedNow(pre, post, c)
                \/ a.k = "Cancel" /\ res.out = "ok" /\ a.id = id /\ a.chain = c /\ tr \in pre.ch[c].pool
                \/ a.k = "End" /\ (tr \in pre.ch[c].pool \/ tr \in ReleasedNow(pre, post, c)) /\ Expired(pre, tr, pre.t),
            "C04:Vanished", c)
       \* content of a live transfer never changes
  \cup Fail(\E id \in LiveIds(pre, c) \cap LiveIds(post, c) : TrById(pre, c, id) # TrById(post, c, id), "C04:Mutated", c)
      : c \in Chains(post)}

\* status lifecycle (keyed by the incoming tx hash; module generated pseudo hashes start with '#')
StatusRank(st) == CASE st = "NOT_FOUND" -> 0 [] st = "DEPOSIT_RECEIVED" -> 1 [] st = "BATCH_CREATED" -> 2
                    [] st = "BATCH_EXECUTED" -> 3 [] st = "REFUNDED" -> 4 [] OTHER -> 9
PseudoHash(x) == x \in {"#", "#fee", "#commission"}
C04Status(pre, post) ==
    UNION {
       Fail(StatusOf(pre, x) = "REFUNDED" /\ StatusOf(post, x) # "REFUNDED", "C04:RefundedNotFinal", x)
  \cup Fail(StatusRank(StatusOf(post, x)) < StatusRank(StatusOf(pre, x)) /\ StatusOf(pre, x) # "BATCH_EXECUTED", "C04:StatusBackwards", x)
      : x \in {x \in DOMAIN pre.st \cup DOMAIN post.st : ~PseudoHash(x)}}

\* ---------------------------------------------------------------- C10  batches are well formed
NewBatches(pre, post, c) == {b \in post.ch[c].bat : ~\E o \in pre.ch[c].bat : o.n = b.n /\ o.tok = b.tok}
C10Checks(pre, a, post) ==
    UNION {
      LET nb == NewBatches(pre, post, c) IN
       UNION {
           Fail(Len(b.txs) = 0, "C10:EmptyBatch", c)
      \cup Fail(Len(b.txs) > BatchCap, "C10:OverCap", c)
      \cup Fail(\E tr \in RangeOf(b.txs) : tr.tok # b.tok, "C10:ForeignToken", c)
           \* the batch took the highest-fee transfers of its token that were unbatched before this step
           \* (transfers released by a same-step batch cancellation count as unbatched)
      \cup Fail(\E tr \in RangeOf(b.txs), u \in post.ch[c].pool : u.tok = b.tok /\ u.f > tr.f /\ u \in pre.ch[c].pool, "C10:NotTopFee", c)
      \cup Fail(Len(b.txs) < BatchCap /\ \E u \in post.ch[c].pool : u.tok = b.tok /\ u \in pre.ch[c].pool /\ a.k # "End", "C10:LeftBehind", c)
      \cup Fail(\E tr \in RangeOf(b.txs) : tr \notin LiveTrs(pre, c), "C10:UnknownTransfer", c)
          : b \in nb}
       \* nonces: the new batches carry exactly the next nonces, in creation order sequences are consecutive
  \cup Fail({b.n : b \in nb} # (pre.ch[c].bn + 1)..post.ch[c].bn, "C10:NonceGap", c)
  \cup Fail(post.ch[c].bn < pre.ch[c].bn, "C10:NonceDecreased", c)
  \cup LET newTx == {<<"b", b.n, b.seq>> : b \in nb}
                    \cup {<<"s", x.n, x.seq>> : x \in {x \in post.ch[c].ss : ~\E o \in pre.ch[c].ss : o.n = x.n}}
       IN Fail({t[3] : t \in newTx} # (pre.ch[c].seq + 1)..post.ch[c].seq \/ Cardinality(newTx) # post.ch[c].seq - pre.ch[c].seq,
               "C10:SequenceGap", c)
      : c \in Chains(post)}

\* ---------------------------------------------------------------- C13  batches are withdrawn only when unexecutable
GoneBatches(pre, post, c) == {b \in pre.ch[c].bat : ~\E o \in post.ch[c].bat : o.n = b.n /\ o.tok = b.tok}
C13Checks(g, pre, a, post) ==
    UNION {
      \* the hub's record of the last observed external height is the height of the last applied event, never a reported one
      Fail(post.ch[c].lohe # (LET ap == AppliedEvents(pre, post, c) IN IF ap = {} THEN g.obs[c] ELSE (CHOOSE ev \in ap : \A o \in ap : o.n <= ev.n).eh),
           "C13:ObservedHeightNotApplied", c) : c \in Chains(post)}
    \cup
    UNION {
      UNION {
        LET execs  == {ev \in AppliedEvents(pre, post, c) : ev.t = "Exec" /\ ev.tok = b.tok}
            byExec == \E ev \in execs : ev.bn = b.n
            older  == c # "minter" /\ \E ev \in execs : ev.bn > b.n /\ \E x \in pre.ch[c].bat : x.tok = b.tok /\ x.n = ev.bn
            timed  == a.k = "Begin" /\ c # "minter" /\ b.to < g.obs[c]
        IN   Fail(~(byExec \/ older \/ timed), "C13:WithdrawnWithoutReason", c)
        \cup Fail(c = "minter" /\ ~byExec, "C13:MinterBatchWithdrawn", c)
             \* released transfers go back to the pool; executed ones go nowhere
        \cup Fail(~byExec /\ \E tr \in RangeOf(b.txs) : tr \notin LiveTrs(post, c) /\ ~(a.k = "End" /\ Expired(pre, tr, pre.t)), "C13:ReleasedLost", c)
        \cup Fail(byExec /\ RangeOf(b.txs) \cap LiveTrs(post, c) # {}, "C13:ExecutedStillLive", c)
        : b \in GoneBatches(pre, post, c)}
      : c \in Chains(post)}

\* ---------------------------------------------------------------- C12  cancellation and expiry
\* a cancel is accepted iff the id is in the pool of that chain and the message sender is the recorded sender
C12Cancel(g, pre, a, res, post) ==
    IF a.k # "Cancel" THEN {}
    ELSE LET c == a.chain
             known == c \in Chains(pre)
             hit == IF known THEN {tr \in pre.ch[c].pool : tr.id = a.id} ELSE {}
             should == hit # {} /\ \A tr \in hit : tr.s = a.from
         IN   Fail(res.out = "ok" /\ ~should, "C12:CancelAuth", "accepted")
         \cup Fail(res.out = "err" /\ should /\ (\A tr \in hit : tr.rc = "hub"), "C12:CancelAuth", "rejected")
         \cup (IF res.out = "ok" /\ should
               THEN LET tr == CHOOSE tr \in hit : TRUE
                        d  == DenomOfTr(pre, c, tr)
                        got == BalOf(post, a.from, d) - BalOf(pre, a.from, d)
                        dec == TokByExt(Cfg(pre), c, tr.tok).dec
                    IN   Fail(tr.rc = "hub" /\ Has(g.taken[c], tr.id) /\ got # g.taken[c][tr.id],
                              "C12:RefundExact", IF dec < 18 /\ got = HubValue(pre, c, tr) /\ got < g.taken[c][tr.id] THEN "dust" ELSE "hub")
                    \cup Fail(tr.rc = "hub" /\ ~Has(g.taken[c], tr.id) /\ got # HubValue(pre, c, tr), "C12:RefundExact", "hub")
                    \cup Fail(tr.id \in LiveIds(post, c), "C12:NotRemoved", c)
                    \cup Fail(tr.rc \notin {"hub", ""} /\
                              ~\E r \in post.ch[tr.rc].pool \ pre.ch[tr.rc].pool :
                                   r.d = tr.ra /\ r.f = 0 /\ r.c = 0 /\
                                   ConvDec(TokByExt(Cfg(pre), tr.rc, r.tok).dec, 18, r.a) <= HubValue(pre, c, tr) /\
                                   r.a = ConvDec(18, TokByExt(Cfg(pre), tr.rc, r.tok).dec, HubValue(pre, c, tr)),
                              "C12:RefundExact", "cross")
               ELSE {})

\* expiry: the End step refunds exactly the pool entries past the timeout
C12Expiry(g, pre, a, post) ==
    IF a.k # "End" THEN {}
    ELSE UNION {
          \* (an entry whose amounts were truncated to zero external units cannot be refunded across chains:
          \*  the bank rejects the zero coin -- part of the recorded dust finding)
          UNION {Fail(Expired(pre, tr, pre.t) /\ tr.id \in LiveIds(post, c), "C12:ExpiredKept",
                      IF HubValue(pre, c, tr) = 0 /\ tr.rc \notin {"hub", ""} THEN "zero-dust" ELSE c) : tr \in pre.ch[c].pool}
     \cup Fail(\E tr \in pre.ch[c].pool : ~Expired(pre, tr, pre.t) /\ tr.id \notin LiveIds(post, c), "C12:RefundedEarly", c)
          \* hub-origin transfers that expire pay their sender back what was taken (several may expire at once)
     \cup UNION {
            LET mine == {tr \in pre.ch[c].pool \cup ReleasedNow(pre, post, c) : Expired(pre, tr, pre.t) /\ tr.rc = "hub" /\ tr.s = acct /\ Has(g.taken[c], tr.id)} IN
            IF mine = {} \/ acct \notin DOMAIN pre.bal THEN {}
            ELSE UNION {
                 LET trs  == {tr \in mine : DenomOfTr(pre, c, tr) = d}
                     want == FoldSet(LAMBDA tr, acc : acc + g.taken[c][tr.id], 0, trs)
                     low  == FoldSet(LAMBDA tr, acc : acc + HubValue(pre, c, tr), 0, trs)
                     \* the same account may also be refunded on other chains in this block: compare per chain only
                     \* when the account has expiring transfers on this chain alone
                     alone == /\ \A c2 \in Chains(pre) \ {c} : ~\E tr \in LiveTrs(pre, c2) : Expired(pre, tr, pre.t) /\ tr.s = acct
                              /\ \A tr \in pre.ch[c].pool \cup ReleasedNow(pre, post, c) : (Expired(pre, tr, pre.t) /\ tr.s = acct) => tr \in mine
                              /\ \A c2 \in Chains(pre) : ~\E ev \in AppliedEvents(pre, post, c2) : ev.t \in {"Deposit", "ToHub"} /\ ev.rcv = acct
                     got  == post.bal[acct][d] - pre.bal[acct][d]
                 IN IF trs = {} \/ ~alone THEN {}
                    ELSE Fail(got # want, "C12:ExpiryRefundExact", IF got = low /\ got < want THEN "dust" ELSE c)
                 : d \in DOMAIN pre.sup}
            : acct \in {tr.s : tr \in LiveTrs(pre, c)}}
         : c \in Chains(pre)}

\* ---------------------------------------------------------------- C11  amounts are exact (withdrawal side)
C11Send(pre, a, res, post) ==
    IF a.k # "Send" \/ res.out # "ok" THEN {}
    ELSE LET c   == a.chain
             tok == TokByDenom(Cfg(pre), c, a.denom)
             new == post.ch[c].pool \ pre.ch[c].pool
         IN IF Cardinality(new) # 1 THEN {<<"C11:OneEntry", c>>}
            ELSE LET tr == CHOOSE tr \in new : TRUE
                     maxc == (tok.rnum * (a.amt + a.fee)) \div tok.rden
                 IN   Fail(BalOf(pre, a.from, a.denom) - BalOf(post, a.from, a.denom) # a.amt + a.fee, "C11:DebitExact", c)
                 \cup Fail(tr.f # ConvDec(18, tok.dec, a.fee), "C11:FeeRecorded", c)
                 \cup Fail(tr.c > ConvDec(18, tok.dec, maxc) \/ tr.c < 0, "C11:CommissionBound", c)
                 \cup Fail(~\E k \in 0..maxc : tr.c = ConvDec(18, tok.dec, k) /\ tr.a = ConvDec(18, tok.dec, a.amt - k), "C11:AmountMinusCommission", c)
                 \cup Fail(tr.s # a.from \/ tr.d # a.dest \/ tr.ra # a.from \/ tr.rc # "hub", "C11:Parties", c)
                 \cup Fail(post.sup[a.denom] # pre.sup[a.denom] - (a.amt + a.fee), "C11:BurnExact", c)

\* deposit side: an applied deposit to the hub credits its recipient exactly the locked amount converted with
\* truncation, and nobody else; a deposit forwarded to another chain schedules amount - commission - fee
C11Deposit(pre, a, post) ==
    IF a.k # "End" THEN {}
    ELSE LET evs == UNION {{<<c, ev>> : ev \in {ev \in AppliedEvents(pre, post, c) : ev.t \in {"Deposit", "ToHub"}}} : c \in Chains(pre)}
             toHub(p) == p[2].t = "ToHub" \/ p[2].rch = "hub"
             credit(acct, d) == FoldSet(LAMBDA p, acc : acc +
                                   (LET tok == TokByExt(Cfg(pre), p[1], p[2].tok)
                                    IN IF toHub(p) /\ p[2].rcv = acct /\ Found(tok) /\ tok.denom = d THEN ConvDec(tok.dec, 18, p[2].amt) ELSE 0), 0, evs)
             \* accounts that are refunded by an expiry in the same block are judged by C12
             refunded(acct) == \E c \in Chains(pre) : \E tr \in LiveTrs(pre, c) : tr.s = acct /\ Expired(pre, tr, pre.t)
         IN UNION {UNION {
                Fail(~refunded(acct) /\ acct \notin {"tmp", "mod"} /\ post.bal[acct][d] - pre.bal[acct][d] # credit(acct, d), "C11:DepositCredit", acct)
              : d \in DOMAIN pre.sup} : acct \in DOMAIN pre.bal}
            \cup UNION {
                LET c == p[1]  ev == p[2]
                    src == TokByExt(Cfg(pre), c, ev.tok)
                    dst == IF Found(src) /\ ev.t = "Deposit" /\ ev.rch \in Chains(pre) THEN TokByDenom(Cfg(pre), ev.rch, src.denom) ELSE [id |-> 0]
                IN IF toHub(p) \/ ~Found(dst) \/ ev.rch = "hub" THEN {}
                   ELSE LET new  == {tr \in post.ch[ev.rch].pool \ pre.ch[ev.rch].pool : tr.x = ev.txh}
                            camt == ConvDec(src.dec, 18, ev.amt)
                            cfee == ConvDec(src.dec, 18, ev.fee)
                            maxc == (dst.rnum * camt) \div dst.rden
                        IN  \* either the forward was scheduled exactly, or the whole deposit was dropped (nothing minted)
                            Fail(new # {} /\ ~\E tr \in new : \E k \in 0..maxc :
                                     tr.c = ConvDec(18, dst.dec, k) /\ tr.f = ConvDec(18, dst.dec, cfee) /\
                                     tr.a = ConvDec(18, dst.dec, camt - k - cfee) /\ tr.d = ev.rcv /\ tr.ra = ev.snd /\ tr.rc = c,
                                 "C11:ForwardExact", ev.rch)
                : p \in evs}

\* other accounts are untouched by a Send / Cancel / ReqBatch / Claim / Confirm / SetKeys message
C11Others(pre, a, res, post) ==
    IF a.k \notin {"Send", "Cancel", "ReqBatch", "Claim", "Confirm", "SetKeys"} THEN {}
    ELSE Fail(a.k \in {"Send", "Cancel"} /\ \E acct \in DOMAIN pre.bal : acct \notin {a.from, "tmp", "mod"} /\ pre.bal[acct] # post.bal[acct], "C11:BystanderChanged", "")
    \cup Fail(a.k \in {"ReqBatch", "Claim", "Confirm", "SetKeys"} /\ (pre.bal # post.bal \/ pre.sup # post.sup), "C11:BalanceChangedByNonMoneyMsg", a.k)

\* ---------------------------------------------------------------- C02  attestation quorum
DistinctVoters(r) == Cardinality(RangeOf(r.voters)) = Len(r.voters)
VotePower(s, r) == FoldSet(LAMBDA v, acc : acc + PowerOf(s, v), 0, RangeOf(r.voters))
C02Checks(pre, a, post) ==
    UNION {
      UNION {
           Fail(100 * VotePower(post, r) < 66 * post.tot, "C02:QuorumAtApply", c)
      \cup Fail(~DistinctVoters(r), "C02:NoDoubleCount", c)
      \cup Fail(\E v \in RangeOf(r.voters) : ~(v \in DOMAIN post.stk), "C02:UnknownVoter", c)
         : r \in NewlyAccepted(pre, post, c)}
      : c \in Chains(post)}
\* a vote is recorded only for the bonded validator the sending account acts for
C02Vote(pre, a, res, post) ==
    IF a.k # "Claim" \/ res.out # "ok" \/ a.chain \notin Chains(pre) THEN {}
    ELSE LET c == a.chain
             v == SignerVal(pre, c, a.by)
             grew == {r \in post.ch[c].votes : \A q \in pre.ch[c].votes : ~(q.n = r.n /\ q.cid = r.cid) \/ Len(q.voters) < Len(r.voters)}
         IN   Fail(v = "", "C02:VoterNotEligible", c)
         \cup Fail(Cardinality(grew) # 1, "C02:OneVotePerClaim", c)
         \cup Fail(\E r \in grew : Len(r.voters) = 0 \/ r.voters[Len(r.voters)] # v, "C02:VoteAttribution", c)
         \cup Fail(\E r \in grew : r.ev # a.ev /\ r.voters = <<v>>, "C02:RecordedOtherEvent", c)

\* ---------------------------------------------------------------- C03  exactly once, in nonce order
C03Checks(pre, a, res, post) ==
    UNION {
        Fail(post.ch[c].lon < pre.ch[c].lon, "C03:NonceMonotone", c)
   \cup Fail(post.ch[c].lon # pre.ch[c].lon + Cardinality(NewlyAccepted(pre, post, c)), "C03:OnePerNonce", c)
   \cup Fail({r.n : r \in NewlyAccepted(pre, post, c)} # (pre.ch[c].lon + 1)..post.ch[c].lon, "C03:Consecutive", c)
   \cup Fail(\E r1, r2 \in post.ch[c].votes : r1.acc /\ r2.acc /\ r1.n = r2.n /\ r1.cid # r2.cid, "C03:ConflictBothAccepted", c)
   \cup Fail(a.k # "End" /\ post.ch[c].lon # pre.ch[c].lon, "C03:AppliedOutsideEndBlock", c)
   \cup Fail(\E r \in pre.ch[c].votes : r.acc /\ ~\E q \in post.ch[c].votes : q.n = r.n /\ q.cid = r.cid /\ q.acc, "C03:AcceptedForgotten", c)
        \* a validator's claims are consecutive once it has claimed: an accepted claim for nonce n moves its
        \* last nonce to n, and n was last+1 (or it had none)
   \cup (IF a.k = "Claim" /\ res.out = "ok" /\ a.chain = c
         THEN LET v == SignerVal(pre, c, a.by)
              IN Fail(v # "" /\ Has(pre.ch[c].lnv, v) /\ pre.ch[c].lnv[v] # 0 /\ a.ev.n # pre.ch[c].lnv[v] + 1, "C03:ValidatorSkipped", c)
            \cup Fail(v # "" /\ Get(post.ch[c].lnv, v, 0) # a.ev.n, "C03:ValidatorNonceNotRecorded", c)
         ELSE {})
        \* bridge effects (pool, batches, balances through the bridge) of an End step come only with applied events or expiry
      : c \in Chains(post)}

\* ---------------------------------------------------------------- C05  block processing is total
C05Checks(a, res) == Fail(a.k \in {"Begin", "End"} /\ res.out # "ok", "C05:BlockOpsTotal", res.out)

\* ---------------------------------------------------------------- C09  signer sets mirror bonded power
NewSignerSets(pre, post, c) == {x \in post.ch[c].ss : ~\E o \in pre.ch[c].ss : o.n = x.n}
LSum(seq) == FoldLeft(LAMBDA acc, m : LAdd(acc, m[2]), <<0, 0>>, seq)
SortedOk(cfg, m) == \A i \in 1..(Len(m) - 1) : MemberBefore(cfg, m[i], m[i + 1])
C09Checks(pre, a, post) ==
    UNION {
      UNION {
           Fail(RangeOf(x.m) # CurrentSigners(post, c), "C09:MembersAndPowers", c)
      \cup Fail(Cardinality(RangeOf(x.m)) # Len(x.m), "C09:DuplicateMember", c)
      \cup Fail(~SortedOk(Cfg(post), x.m), "C09:Order", c)
      \cup Fail(LLess(<<65535, 65535>>, LSum(x.m)), "C09:TotalAbove2^32", c)
      \cup Fail({m[1] : m \in RangeOf(x.m)} # {post.ch[c].ve[v] : v \in BondedWithKey(post, c)}, "C09:Members", c)
         : x \in NewSignerSets(pre, post, c)}
      \cup Fail({x.n : x \in NewSignerSets(pre, post, c)} # (pre.ch[c].ssn + 1)..post.ch[c].ssn, "C09:NonceNotNext", c)
      \cup Fail(post.ch[c].ssn < pre.ch[c].ssn, "C09:NonceDecreased", c)
      \cup Fail(a.k # "Begin" /\ NewSignerSets(pre, post, c) # {}, "C09:CreatedOutsideBeginBlock", c)
           \* after BeginBlock the latest published set is within 5% of the current validator set
      \cup (IF a.k = "Begin" /\ c # "hub"
            THEN LET latest == {x \in post.ch[c].ss : x.n = post.ch[c].ssn}
                 IN Fail(latest = {} \/ \E x \in latest : PowerDiffExceeds(CurrentSigners(post, c), RangeOf(x.m)), "C09:FreshAfterBegin", c)
            ELSE {})
      : c \in Chains(post)}

\* ---------------------------------------------------------------- C17  delegate-key registry
C17Inv(post) ==
    UNION {
        Fail(\E v1, v2 \in DOMAIN post.ch[c].ve : v1 # v2 /\ post.ch[c].ve[v1] = post.ch[c].ve[v2], "C17:ExtNotInjective", c)
   \cup Fail(\E v \in DOMAIN post.ch[c].ve :
               LET e == post.ch[c].ve[v] IN ~(Has(post.ch[c].eo, e) /\ Has(post.ch[c].ov, post.ch[c].eo[e]) /\ post.ch[c].ov[post.ch[c].eo[e]] = v),
             "C17:MapsInconsistent", c)
      : c \in Chains(post)}
C17Register(pre, a, res, post) ==
    IF a.k # "SetKeys" \/ a.chain \notin Chains(pre) THEN {}
    ELSE LET c == pre.ch[a.chain]
             authorised == a.txby = a.val /\ a.sigkey = a.ext /\ a.sigseq = 0 /\ a.sigval = a.val
             free == (~\E v \in DOMAIN c.ve : c.ve[v] = a.ext) /\ (~\E e \in DOMAIN c.eo : c.eo[e] = a.orch)
             exists == a.val \in DOMAIN pre.stk /\ pre.stk[a.val].x
         IN   Fail(res.out = "ok" /\ ~authorised, "C17:NotSelfAuthorised", a.chain)
         \cup Fail(res.out = "ok" /\ ~free, "C17:AddressReused", a.chain)
         \cup Fail(res.out = "ok" /\ ~exists, "C17:UnknownValidator", a.chain)
         \cup Fail(res.out = "ok" /\ ~(Get(post.ch[a.chain].ve, a.val, "") = a.ext /\ Get(post.ch[a.chain].ov, a.orch, "") = a.val /\ Get(post.ch[a.chain].eo, a.ext, "") = a.orch), "C17:BindingNotRecorded", a.chain)
         \cup Fail(res.out = "err" /\ authorised /\ free /\ exists, "C17:ValidRegistrationRejected", a.chain)
\* the registry changes only through an accepted registration
C17Frozen(pre, a, res, post) ==
    UNION {Fail(~(a.k = "SetKeys" /\ res.out = "ok" /\ a.chain = c) /\
                <<pre.ch[c].ve, pre.ch[c].ov, pre.ch[c].eo>> # <<post.ch[c].ve, post.ch[c].ov, post.ch[c].eo>>, "C17:ChangedWithoutRegistration", c)
           : c \in Chains(post)}

\* what an account does on a chain is attributed to the validator that registered it as its orchestrator (the registry
\* is consulted first), else to the validator the account itself operates
RegisteredVal(s, c, acct) == IF Has(s.ch[c].ov, acct) THEN s.ch[c].ov[acct] ELSE acct
C17Attribution(pre, a, res, post) ==
    IF res.out # "ok" \/ a.k \notin {"Claim", "Confirm"} \/ a.chain \notin Chains(pre) THEN {}
    ELSE LET c == a.chain
             v == RegisteredVal(pre, c, a.by)
         IN IF a.k = "Confirm"
            THEN Fail(~Has(SigsOf(post, c, a.tx), v) \/ Has(SigsOf(pre, c, a.tx), v), "C17:Attribution", "confirmation")
            ELSE Fail(Get(post.ch[c].lnv, v, -1) # a.ev.n
                      \/ ~\E r \in post.ch[c].votes : r.n = a.ev.n /\ Len(r.voters) > 0 /\ r.voters[Len(r.voters)] = v, "C17:Attribution", "vote")

\* ---------------------------------------------------------------- C16  confirmations
SigCount(s, c) == FoldSet(LAMBDA gsig, acc : acc + Cardinality(DOMAIN gsig.by), 0, s.ch[c].sigs)
C16Confirm(pre, a, res, post) ==
    IF a.k = "Tx"       \* several messages in one transaction: at most one new record per confirmation it carries
    THEN UNION {Fail(SigCount(post, c) - SigCount(pre, c) > Cardinality({i \in DOMAIN a.msgs : a.msgs[i].k = "Confirm" /\ a.msgs[i].chain = c}),
                     "C16:RecordedWithoutConfirm", c) : c \in Chains(post)}
    ELSE IF a.k # "Confirm" THEN UNION {Fail(SigCount(post, c) > SigCount(pre, c), "C16:RecordedWithoutConfirm", c) : c \in Chains(post)}
    ELSE IF a.chain \notin Chains(pre) THEN Fail(res.out = "ok", "C16:UnknownChainAccepted", a.chain)
    ELSE LET c == a.chain
             v == SignerVal(pre, c, a.by)
             should == /\ v # "" /\ TxExists(pre, c, a.tx) /\ a.tx.n # 0
                       /\ Has(pre.ch[c].ve, v) /\ pre.ch[c].ve[v] = a.ext
                       /\ ~Has(SigsOf(pre, c, a.tx), v)
         IN   Fail(res.out = "ok" /\ ~should,
                   "C16:ConfirmRule", IF v # "" /\ ~Has(pre.ch[c].ve, v) /\ a.ext = "zero" THEN "zero-address" ELSE "accepted")
         \cup Fail(res.out = "err" /\ should, "C16:ConfirmRule", "rejected")
         \cup Fail(res.out = "ok" /\ ~(Has(SigsOf(post, c, a.tx), v) /\ SigCount(post, c) = SigCount(pre, c) + 1), "C16:NotRecordedOnce", c)
         \cup Fail(res.out = "ok" /\ v # "" /\ Has(SigsOf(post, c, a.tx), v) /\ SigsOf(post, c, a.tx)[v] # a.key, "C16:WrongSignatureStored", c)
         \cup Fail(\E c2 \in Chains(post) \ {c} : post.ch[c2].sigs # pre.ch[c2].sigs, "C16:OtherChainTouched", c)
         \cup Fail(\E gsig \in pre.ch[c].sigs : \E w \in DOMAIN gsig.by : ~Has(SigsOf(post, c, gsig.tx), w) \/ SigsOf(post, c, gsig.tx)[w] # gsig.by[w], "C16:Overwritten", c)

\* ---------------------------------------------------------------- C19  fees and commissions stay within what was collected
\* Evaluated on an End step that applies exactly one batch execution (so the Minter-side transfers the step creates
\* can be attributed to it).
ExecsApplied(pre, post) ==
    UNION {{<<c, ev>> : ev \in {ev \in AppliedEvents(pre, post, c) : ev.t = "Exec" /\ \E b \in pre.ch[c].bat : b.tok = ev.tok /\ b.n = ev.bn}} : c \in Chains(pre)}
SumOf(S, F(_)) == FoldSet(LAMBDA x, acc : acc + F(x), 0, S)
C19Checks(pre, a, post) ==
    IF a.k # "End" \/ Cardinality(ExecsApplied(pre, post)) # 1 \/ "minter" \notin Chains(pre) THEN {}
    ELSE LET p    == CHOOSE p \in ExecsApplied(pre, post) : TRUE
             c    == p[1]
             ev   == p[2]
             b    == CHOOSE b \in pre.ch[c].bat : b.tok = ev.tok /\ b.n = ev.bn
             tok  == TokByExt(Cfg(pre), c, b.tok)
             mtok == TokByDenom(Cfg(pre), "minter", tok.denom)
             totF == ConvDec(tok.dec, 18, SumOver(b.txs, LAMBDA tr : tr.f))
             totC == ConvDec(tok.dec, 18, SumOver(b.txs, LAMBDA tr : tr.c))
             \* Minter-side transfers created in this step for this denom (no other source of "#fee"/"#commission" in an End step)
             newm == {tr \in post.ch["minter"].pool \ pre.ch["minter"].pool : tr.tok = mtok.ext}
             hv(tr) == ConvDec(mtok.dec, 18, tr.a)
             fees  == {tr \in newm : tr.x = "#fee"}
             comms == {tr \in newm : tr.x = "#commission"}
             payees == BondedWithKey(post, "minter")
             P == PowerSum(post, payees)
         IN IF ~Found(mtok) THEN {}
            ELSE Fail(SumOf(fees, hv) > totF, "C19:FeesWithinCollected", c)
            \cup Fail(SumOf(comms, hv) > totC, "C19:CommissionWithinCollected", c)
                 \* every user's refund is at most the fee that user paid
            \cup Fail(\E r \in {tr.ra : tr \in RangeOf(b.txs)} :
                        r # ev.fpr /\ SumOf({tr \in fees : tr.d = r}, hv) > ConvDec(tok.dec, 18, SumOver(b.txs, LAMBDA tr : IF tr.ra = r THEN tr.f ELSE 0)),
                      "C19:RefundAboveFeePaid", c)
                 \* nobody but the fee payer and the refund addresses of the batch is paid from the fees
            \cup Fail(\E tr \in fees : tr.d # ev.fpr /\ tr.d \notin {t2.ra : t2 \in RangeOf(b.txs)}, "C19:FeeToStranger", c)
                 \* commission: one payout per signer, within one unit of proportional
            \cup Fail(\E tr \in comms : ~\E v \in payees : post.ch["minter"].ve[v] = tr.d, "C19:CommissionToStranger", c)
            \cup Fail(P > 0 /\ \E v \in payees :
                        LET mine == SumOf({tr \in comms : tr.d = post.ch["minter"].ve[v]}, hv)
                        IN mine * P > totC * post.stk[v].p \/ (mine + 1) * P < totC * post.stk[v].p,
                      "C19:CommissionProportional", c)
                 \* the fee record reports the fee actually kept, between zero and the fee paid, in external units
            \cup UNION {
                 IF PseudoHash(tr.x) \/ ~Has(post.fr, tr.x) THEN Fail(~PseudoHash(tr.x), "C19:FeeRecordMissing", c)
                 ELSE LET rec == post.fr[tr.x]
                          mineRefund == SumOf({f \in fees : f.d = tr.ra /\ tr.ra # ev.fpr}, hv)
                          single == Cardinality({t2 \in RangeOf(b.txs) : t2.ra = tr.ra}) = 1
                      IN   Fail(rec[2] < 0 \/ rec[2] > tr.f, "C19:FeeRecordRange", c)
                      \cup Fail(rec[1] # tr.c, "C19:FeeRecordCommission", c)
                      \cup Fail(single /\ tr.rc = "minter" /\ rec[2] # tr.f - ConvDec(18, tok.dec, mineRefund), "C19:FeeRecordExact",
                                IF tok.dec # 18 /\ rec[2] = tr.f - mineRefund THEN "unit-mix" ELSE c)
                 : tr \in RangeOf(b.txs)}

\* ---------------------------------------------------------------- known findings
\* A deviation switch that stands for a recorded (not repaired) finding excuses exactly the check detail that
\* describes it; every other failure of the same property is still a violation.
Excused(f) ==
    \/ "FeeRecordUnitMix" \in Dev /\ f[1] \in {"C19:FeeRecordExact", "C19:FeeRecordRange"}
    \/ "ConfirmZeroAddress" \in Dev /\ f = <<"C16:ConfirmRule", "zero-address">>
    \/ "RefundTruncatedDust" \in Dev /\ f \in {<<"C12:RefundExact", "dust">>, <<"C12:ExpiryRefundExact", "dust">>, <<"C12:ExpiredKept", "zero-dust">>}

\* ---------------------------------------------------------------- all step checks that need no external world
StepChecks(g, pre, a, res, post) ==
       C04Checks(g, pre, a, res, post) \cup C04Status(pre, post)
  \cup C10Checks(pre, a, post) \cup C13Checks(g, pre, a, post)
  \cup C12Cancel(g, pre, a, res, post) \cup C12Expiry(g, pre, a, post)
  \cup C11Send(pre, a, res, post) \cup C11Others(pre, a, res, post) \cup C11Deposit(pre, a, post)
  \cup C02Checks(pre, a, post) \cup C02Vote(pre, a, res, post) \cup C03Checks(pre, a, res, post) \cup C05Checks(a, res)
  \cup C09Checks(pre, a, post) \cup C17Inv(post) \cup C17Register(pre, a, res, post) \cup C17Frozen(pre, a, res, post) \cup C17Attribution(pre, a, res, post)
  \cup C16Confirm(pre, a, res, post) \cup C19Checks(pre, a, post)

=============================================================================
