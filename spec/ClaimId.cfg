SPECIFICATION Spec
CONSTANTS
  Dev = {}
INVARIANT DistinctIds
CHECK_DEADLOCK FALSE
