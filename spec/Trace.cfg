SPECIFICATION Spec
CONSTANTS
  Dev = {"RefundTruncatedDust"}
CONSTRAINT Record
POSTCONDITION Report
CHECK_DEADLOCK FALSE
