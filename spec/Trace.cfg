SPECIFICATION Spec
CONSTANTS
  Dev = {"MintAmountPlusFee","ThresholdFloor","EmptyBatch","TokenPrefixScan","HashOmitsFields","NegativeFeeUnchecked","FeeRecordUnitMix"}
CONSTRAINT Record
POSTCONDITION Report
CHECK_DEADLOCK FALSE
