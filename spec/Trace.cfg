SPECIFICATION Spec
CONSTANTS
  UseStaticCfg = FALSE
  StaticCfg <- NoCfg
  Dev = {"RefundTruncatedDust"}
CONSTRAINT Record
POSTCONDITION Report
CHECK_DEADLOCK FALSE
