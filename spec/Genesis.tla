------------------------------ MODULE Genesis ------------------------------
(***************************************************************************)
(* C15: exporting the bridge and oracle state and initialising a new chain *)
(* from it is the identity on the abstract state, and the restarted chain  *)
(* reacts to every continuation exactly as the original.                   *)
(*                                                                         *)
(* The abstract state is split into named components; ExportImport must    *)
(* preserve every one.  The trace part consumes the harness's records:     *)
(* "roundtrip" lines (state of the original and of the re-initialised      *)
(* application at the export boundary) and "cont" lines (both after each   *)
(* step of the same continuation), and reports, per export, the set of     *)
(* components that differ.                                                 *)
(***************************************************************************)
EXTENDS Integers, Sequences, FiniteSets, TLC, Json, IOUtils

ChainComponents == {"pool", "bat", "ss", "cc", "loss", "votes", "lnv", "sigs"}
Counters == {"txid", "bn", "seq", "ssn", "lon", "lohc", "lohe"}
GlobalComponents == {"bal", "sup", "st", "fr", "tok", "stk", "tot", "h"}
OracleComponents == {"ep", "pr", "hold", "att", "claims"}

\* names of the components in which two projected states differ
\* delegate keys: the current bindings (validator -> external address, that address -> orchestrator, that
\* orchestrator -> validator) and, separately, the stale entries a re-registration leaves behind (an old orchestrator
\* keeps acting for its validator)
Current(k) == [v \in DOMAIN k.ve |->
                 LET e == k.ve[v]
                     o == IF e \in DOMAIN k.eo THEN k.eo[e] ELSE ""
                 IN <<e, o, IF o \in DOMAIN k.ov THEN k.ov[o] ELSE "">>]
Differs(a, b) ==
       UNION {{<<comp, c>> : comp \in {comp \in ChainComponents : a.ch[c][comp] # b.ch[c][comp]}} : c \in DOMAIN a.ch}
  \cup {<<"keys", c>> : c \in {c \in DOMAIN a.ch : Current(a.ch[c].keys) # Current(b.ch[c].keys)}}
  \cup {<<"keys.stale", c>> : c \in {c \in DOMAIN a.ch : Current(a.ch[c].keys) = Current(b.ch[c].keys) /\ a.ch[c].keys # b.ch[c].keys}}
  \cup UNION {{<<"cnt." \o k, c>> : k \in {k \in Counters : a.ch[c].cnt[k] # b.ch[c].cnt[k]}} : c \in DOMAIN a.ch}
  \cup {<<comp, "">> : comp \in {comp \in GlobalComponents : a[comp] # b[comp]}}
  \cup {<<"or." \o comp, "">> : comp \in {comp \in OracleComponents : a["or"][comp] # b["or"][comp]}}

\* design level: the intended ExportImport is the identity
ExportImport(s) == s

\* ---------------------------------------------------------------- trace part
Trace == ndJsonDeserialize(IOEnv.VERIF_TRACE)
VARIABLES l, viol, stat
vars == <<l, viol, stat>>

Init == l = 0 /\ viol = {} /\ stat = [roundtrips |-> 0, conts |-> 0, nonempty |-> 0]
NonEmpty(s) == \E c \in DOMAIN s.ch : s.ch[c].pool # <<>> \/ s.ch[c].bat # <<>> \/ s.ch[c].votes # <<>> \/ s.ch[c].sigs # <<>>
Next ==
    /\ l < Len(Trace)
    /\ LET line == Trace[l + 1] IN
       IF "error" \in DOMAIN line
       THEN /\ viol' = viol \cup {<<line.id, line.boundary, 0, "C15:ExportFailed", "">>}
            /\ stat' = stat
       ELSE IF "dead" \in DOMAIN line.orig \/ "dead" \in DOMAIN line.copy
       THEN /\ viol' = IF ("dead" \in DOMAIN line.orig) # ("dead" \in DOMAIN line.copy)
                       THEN viol \cup {<<line.id, line.boundary, IF line.k = "cont" THEN line.i ELSE 0, "C15:ContinuationDiverged", "dead">>} ELSE viol
            /\ stat' = stat
       ELSE IF line.k = "roundtrip"
       THEN /\ viol' = viol \cup {<<line.id, line.boundary, 0, "C15:Lost", d[1] \o (IF d[2] = "" THEN "" ELSE ":" \o d[2])>> : d \in Differs(line.orig, line.copy)}
            /\ stat' = [stat EXCEPT !.roundtrips = @ + 1, !.nonempty = @ + (IF NonEmpty(line.orig) THEN 1 ELSE 0)]
       ELSE /\ viol' = viol
                 \cup {<<line.id, line.boundary, line.i, "C15:ContinuationDiverged", d[1] \o (IF d[2] = "" THEN "" ELSE ":" \o d[2])>> : d \in Differs(line.orig, line.copy)}
                 \cup (IF line.res_orig.out # line.res_copy.out THEN {<<line.id, line.boundary, line.i, "C15:ContinuationDiverged", "result">>} ELSE {})
            /\ stat' = [stat EXCEPT !.conts = @ + 1]
    /\ l' = l + 1
Spec == Init /\ [][Next]_vars
Record == TLCSet(1, [viol |-> viol, stat |-> stat, lines |-> l])
Consumed == TLCGet("stats").diameter - 1 = Len(Trace)
Report == Consumed /\ JsonSerialize(IOEnv.VERIF_REPORT, TLCGet(1))
=============================================================================
