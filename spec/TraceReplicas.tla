--------------------------- MODULE TraceReplicas ---------------------------
(* Recorded observations of R replicas of the real application, one line per script step:               *)
(* [id, i, k, obs = <<o1, .., oR>>].  Agreement on the real code: all replicas observed the same.       *)
EXTENDS Integers, Sequences, FiniteSets, TLC, Json, IOUtils

Trace == ndJsonDeserialize(IOEnv.VERIF_TRACE)
VARIABLES l, viol, stat
vars == <<l, viol, stat>>

Agree(line) == \A a, b \in DOMAIN line.obs : line.obs[a] = line.obs[b]

Init == l = 0 /\ viol = {} /\ stat = [steps |-> 0, ends |-> 0, replicas |-> 0]
Next == /\ l < Len(Trace)
        /\ LET line == Trace[l + 1] IN
           /\ viol' = IF Agree(line) THEN viol ELSE viol \cup {<<line.id, line.i, "C06:Agreement", line.k>>}
           /\ stat' = [steps |-> stat.steps + 1, ends |-> stat.ends + (IF line.k = "End" THEN 1 ELSE 0), replicas |-> Len(line.obs)]
        /\ l' = l + 1
Spec == Init /\ [][Next]_vars
Record == TLCSet(1, [viol |-> viol, stat |-> stat, lines |-> l])
Consumed == TLCGet("stats").diameter - 1 = Len(Trace)
Report == Consumed /\ JsonSerialize(IOEnv.VERIF_REPORT, TLCGet(1))
=============================================================================
