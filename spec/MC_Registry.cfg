SPECIFICATION Spec
CONSTANTS
  UseStaticCfg = TRUE
  StaticCfg <- DefaultCfg
  Dev = {"RefundTruncatedDust"}
  Family = "registry"
  MaxLen = 3
  Amts = {10}
  Fees = {0}
  Users = {"a1"}
  SendChains = {"ethereum"}
  Denoms = {"hub"}
  DepChains = {"minter"}
  DepDests = {"hub"}
  MaxSends = 1
  MaxDeposits = 1
  MaxBlocks = 3
  Orchs = {"o1", "o2"}
  Exts = {"e1", "e2"}
  KeyChains = {"bsc", "ethereum", "minter"}
  KeyVariants = {"good"}
  DepAmts = {40}
  DepFees = {0}
  WithKeysAndPrices = FALSE
  FeePaids = {1}
  StakePowers = {1}
  WatchNames = {}
  KeepHist = TRUE
  TwoLevel = FALSE
  EmitScripts = TRUE
CONSTRAINT Emit
INVARIANT NoStepViolation
CHECK_DEADLOCK FALSE
