----------------------------- MODULE Connector -----------------------------
(***************************************************************************)
(* C20: the Minter connector numbers events identically across restarts.   *)
(*                                                                         *)
(* The Minter chain is a sequence of blocks, each a sequence of            *)
(* transactions classified by what the connector does with them:           *)
(*   "D" deposit to the multisig with a well-formed command   (bridge event)*)
(*   "I" send to the multisig whose command is rejected       (ignored)    *)
(*   "B" multisend from the multisig = executed batch         (bridge event)*)
(*   "V" multisig edit with a numeric payload = valset update (bridge event)*)
(*   "W" multisig edit with an unparsable payload             (ignored)    *)
(*   "O" anything else                                        (ignored)    *)
(* The connector keeps a cursor (last checked block, NEXT event nonce,     *)
(* NEXT batch nonce, last valset nonce) in memory and persists it in a     *)
(* status file at certain points.  On start it loads the file and          *)
(* re-synchronises against the event nonce the hub acknowledges for this   *)
(* validator (minter.GetLatestMinterBlockAndNonce); then it relays         *)
(* (main.relayMinterEvents, modelled from a reading of the code, not       *)
(* bound).  A crash may happen at any time: only the persisted cursor      *)
(* survives.                                                               *)
(***************************************************************************)
EXTENDS Integers, Sequences, FiniteSets, SequencesExt, TLC, Json, IOUtils

CONSTANTS Dev,        \* deviation switches: "ResyncMidBlock"
          Kinds,      \* transaction classes that occur
          MaxBlocks, MaxTx

IsEvent(k) == k \in {"D", "B", "V"}

\* all blocks / histories of the bounded model
SeqsUpTo(S, n) == UNION {[1..k -> S] : k \in 0..n}
BlocksAll == SeqsUpTo(Kinds, MaxTx)
Histories == UNION {[1..k -> BlocksAll] : k \in 0..MaxBlocks}

\* cursor: blk = last checked block, ev = next event nonce, bat = next batch nonce, vs = valset updates seen
Start == [blk |-> 0, ev |-> 1, bat |-> 1, vs |-> 0]

CountIn(block, P(_)) == Cardinality({i \in DOMAIN block : P(block[i])})
EventsUpTo(chain, b) == LET F[i \in 0..b] == IF i = 0 THEN 0 ELSE F[i - 1] + CountIn(chain[i], IsEvent) IN F[b]
BatchesUpTo(chain, b) == LET F[i \in 0..b] == IF i = 0 THEN 0 ELSE F[i - 1] + CountIn(chain[i], LAMBDA k : k = "B") IN F[b]
ValsetsUpTo(chain, b) == LET F[i \in 0..b] == IF i = 0 THEN 0 ELSE F[i - 1] + CountIn(chain[i], LAMBDA k : k = "V") IN F[b]

\* the cursor that is consistent with having checked exactly the blocks 1..b
CursorAt(chain, b) == [blk |-> b, ev |-> Start.ev + EventsUpTo(chain, b), bat |-> Start.bat + BatchesUpTo(chain, b), vs |-> ValsetsUpTo(chain, b)]

\* C20: the persisted cursor is consistent
Consistent(chain, cur) == cur.blk \in 0..Len(chain) /\ cur = CursorAt(chain, cur.blk)

\* ---------------------------------------------------------------- processing one transaction / block
Bump(cur, k) ==
    CASE k = "D" -> [cur EXCEPT !.ev = @ + 1]
      [] k = "B" -> [cur EXCEPT !.ev = @ + 1, !.bat = @ + 1]
      [] k = "V" -> [cur EXCEPT !.ev = @ + 1, !.vs = @ + 1]
      [] OTHER   -> cur

\* GetLatestMinterBlockAndNonce(ctx, ack): scan the blocks after the cursor up to `head`; stop at the first bridge
\* event the hub has not acknowledged (ack > 0 and ack < next nonce) and persist "one block back".
\* Returns the persisted cursor.
ResyncBlock(cur, block, ack) ==   \* [stop, cur]: processing of one block, cur = cursor at the moment of stopping / after it
    LET F[i \in 0..Len(block)] ==
          IF i = 0 THEN [stop |-> FALSE, cur |-> cur]
          ELSE LET p == F[i - 1] IN
               IF p.stop THEN p
               ELSE IF IsEvent(block[i]) /\ ack > 0 /\ ack < p.cur.ev THEN [stop |-> TRUE, cur |-> p.cur]
               ELSE [stop |-> FALSE, cur |-> Bump(p.cur, block[i])]
    IN F[Len(block)]

Resync(chain, head, cur0, ack) ==
    LET F[b \in cur0.blk..head] ==
          IF b = cur0.blk THEN [stop |-> FALSE, cur |-> cur0]
          ELSE LET p == F[b - 1] IN
               IF p.stop THEN p
               ELSE LET r == ResyncBlock(p.cur, chain[b], ack) IN
                    IF r.stop
                    THEN [stop |-> TRUE,
                          cur  |-> IF "ResyncMidBlock" \in Dev
                                   THEN [r.cur EXCEPT !.blk = b - 1]          \* the code: nonces already include this block's earlier events
                                   ELSE [p.cur EXCEPT !.blk = b - 1]]         \* intended: the cursor at the end of block b-1
                    ELSE [stop |-> FALSE, cur |-> [r.cur EXCEPT !.blk = b]]
    IN IF head <= cur0.blk THEN cur0 ELSE F[head].cur

\* relayMinterEvents: scan forward from the in-memory cursor to `head` assigning nonces; the cursor is persisted
\* after every leading block without events and once at the end.  Returns the set of cursors a crash may leave
\* behind, and the final one.
RelayFinal(chain, head, cur0) ==
    LET F[b \in cur0.blk..head] ==
          IF b = cur0.blk THEN cur0
          ELSE LET G[i \in 0..Len(chain[b])] == IF i = 0 THEN F[b - 1] ELSE Bump(G[i - 1], chain[b][i])
               IN [G[Len(chain[b])] EXCEPT !.blk = b]
    IN IF head <= cur0.blk THEN cur0 ELSE F[head]
RelayCrashPoints(chain, head, cur0) ==
    {cur0} \cup {CursorAt(chain, b) : b \in {b \in (cur0.blk + 1)..head : EventsUpTo(chain, b) = EventsUpTo(chain, cur0.blk)}}

\* ---------------------------------------------------------------- the system
VARIABLES chain, head, disk, up, mem
vars == <<chain, head, disk, up, mem>>

Init == /\ chain \in Histories
        /\ head = 0
        /\ disk = Start
        /\ up = FALSE
        /\ mem = Start

TotalEvents == EventsUpTo(chain, Len(chain))

\* the Minter chain grows
Grow == head < Len(chain) /\ head' = head + 1 /\ UNCHANGED <<chain, disk, up, mem>>

\* (re)start: load the status file, resync against whatever nonce the hub acknowledges for this validator.
\* The hub cannot have acknowledged more events than exist up to `head`.
Restart ==
    /\ ~up
    /\ \E ack \in 0..EventsUpTo(chain, head) :
          LET r == Resync(chain, head, disk, ack) IN
          /\ disk' = r /\ mem' = r
    /\ up' = TRUE
    /\ UNCHANGED <<chain, head>>

\* one pass of the main loop
Relay ==
    /\ up
    /\ LET r == RelayFinal(chain, head, mem) IN disk' = r /\ mem' = r
    /\ UNCHANGED <<chain, head, up>>

\* a crash anywhere: inside a relay pass only the cursors persisted so far survive
Crash ==
    /\ up
    /\ disk' \in {disk} \cup (IF Consistent(chain, mem) THEN RelayCrashPoints(chain, head, mem) ELSE {})
    /\ up' = FALSE
    /\ mem' = Start
    /\ UNCHANGED <<chain, head>>

Next == Grow \/ Restart \/ Relay \/ Crash
Spec == Init /\ [][Next]_vars

CursorConsistent == Consistent(chain, disk)

\* ---------------------------------------------------------------- vectors for the conformance harness
\* every (history, consistent cursor, head, acknowledged nonce) with the specification's answer (intended and, for
\* comparison, the deviating one); the harness runs the real GetLatestMinterBlockAndNonce on each.
Seqify(b) == [i \in DOMAIN b |-> b[i]]
Vectors ==
    UNION {UNION {UNION {
        {[chain |-> [i \in DOMAIN c |-> Seqify(c[i])], from |-> CursorAt(c, b), head |-> h, ack |-> a] : a \in 0..EventsUpTo(c, h)}
        : h \in b..Len(c)} : b \in 0..Len(c)} : c \in Histories}

WantedVectors == {[chain |-> v.chain, from |-> v.from, head |-> v.head, ack |-> v.ack,
                    want |-> Resync(v.chain, v.head, v.from, v.ack)] : v \in Vectors}

\* ---------------------------------------------------------------- command validation (ValidateAndComplete)
\* a deposit becomes a claim only if its command is well formed: known type, recipient valid for the target
\* chain, fee a non-negative integer, fee < amount - floor(amount / 100)
CmdTypes == {"send_to_ethereum", "send_to_bsc", "send_to_hub", "send_to_nowhere", ""}
RecipientClasses == {"hex", "bech32", "garbage"}
FeeClasses == {"int", "empty", "decimal", "exp", "space"}
CommandOk(c) ==
    /\ c.type \in {"send_to_ethereum", "send_to_bsc", "send_to_hub"}
    /\ (c.type = "send_to_hub") => c.rcp = "bech32"
    /\ (c.type \in {"send_to_ethereum", "send_to_bsc"}) => c.rcp = "hex"
    /\ c.feeclass = "int"
    /\ "CommandNegativeFee" \in Dev \/ c.fee >= 0
    /\ c.amount - (c.amount \div 100) > c.fee
CommandCases ==
    {[type |-> t, rcp |-> r, feeclass |-> fc, fee |-> f, amount |-> a, want |-> CommandOk([type |-> t, rcp |-> r, feeclass |-> fc, fee |-> f, amount |-> a])] :
        t \in CmdTypes, r \in RecipientClasses, fc \in FeeClasses, f \in {-2, -1, 0, 1, 98, 99, 100, 199}, a \in {0, 1, 99, 100, 101, 200}}

ASSUME IF "VERIF_OUT" \in DOMAIN IOEnv
       THEN /\ JsonSerialize(IOEnv.VERIF_OUT \o "/vectors.json", SetToSeq(WantedVectors))
            /\ JsonSerialize(IOEnv.VERIF_OUT \o "/commands.json", SetToSeq(CommandCases))
       ELSE TRUE

=============================================================================
