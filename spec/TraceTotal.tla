----------------------------- MODULE TraceTotal -----------------------------
(* Trace check for totality runs: amounts may exceed TLC's integers, so only the outcome of block processing is   *)
(* judged: every BeginBlock / EndBlock / Blocks step of the real application returned ok and the node did not die. *)
EXTENDS Integers, Sequences, FiniteSets, TLC, Json, IOUtils
Trace == ndJsonDeserialize(IOEnv.VERIF_TRACE)
VARIABLES l, viol, stat, id
vars == <<l, viol, stat, id>>
Init == l = 0 /\ viol = {} /\ stat = [blockops |-> 0, applied |-> 0, txerr |-> 0, traces |-> 0] /\ id = ""
BlockOp(a) == a.k \in {"Begin", "End", "Blocks"}
Next == /\ l < Len(Trace)
        /\ LET line == Trace[l + 1] IN
           IF line.k = "reset" THEN /\ id' = line.id /\ viol' = viol /\ stat' = [stat EXCEPT !.traces = @ + 1]
           ELSE /\ id' = id
                /\ viol' = IF (BlockOp(line.act) /\ line.res.out # "ok") \/ line.res.out \in {"panic", "timeout", "dead"}
                           THEN viol \cup {<<id, line.i, "C05:BlockOpsTotal", line.res.out>>} ELSE viol
                /\ stat' = [stat EXCEPT !.blockops = @ + (IF BlockOp(line.act) THEN 1 ELSE 0),
                                        !.txerr = @ + (IF line.res.out = "err" THEN 1 ELSE 0)]
        /\ l' = l + 1
Spec == Init /\ [][Next]_vars
Record == TLCSet(1, [viol |-> viol, stat |-> stat, lines |-> l])
Consumed == TLCGet("stats").diameter - 1 = Len(Trace)
Report == Consumed /\ JsonSerialize(IOEnv.VERIF_REPORT, TLCGet(1))
=============================================================================
