SPECIFICATION Spec
CONSTANTS
  R = 3
  Labels = {"b1", "b2"}
  MaxLog = 3
INVARIANT Agreement
CHECK_DEADLOCK FALSE
