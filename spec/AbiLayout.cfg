SPECIFICATION Spec
INVARIANT LayoutWellFormed
CHECK_DEADLOCK FALSE
