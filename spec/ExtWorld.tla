----------------------------- MODULE ExtWorld -----------------------------
(***************************************************************************)
(* The external chains as the hub's validators see them: per chain an      *)
(* event log (what honest validators report, in event-nonce order), a      *)
(* block height, the custody of every bridged token (tokens locked in the  *)
(* Hub2 contract / held by the Minter multisig, in external units) and the *)
(* executed batches.  Used by the bounded models (MC_Hub) and, fed with    *)
(* the Ext* lines of a recorded script, by the trace specification, where  *)
(* it supplies the custody side of the solvency invariant (C01).           *)
(***************************************************************************)
EXTENDS Props

ExtChainsOf(cfg) == RangeOf(cfg.chains) \ {"hub"}
ExtTokens(cfg, c) == {t.ext : t \in {t \in RangeOf(cfg.tokens) : t.chain = c}}

\* The bridge starts exactly collateralised: the genesis supply of every denom is locked on the first chain
\* (in cfg.chains order) that lists the denom.
HomeToken(cfg, d) ==
    LET idx == {i \in DOMAIN cfg.tokens : cfg.tokens[i].denom = d /\ cfg.tokens[i].chain = cfg.chains[1]}
    IN IF idx = {} THEN [id |-> 0] ELSE cfg.tokens[Min(idx)]
XwInit(s) ==
    [c \in ExtChainsOf(Cfg(s)) |->
       [log |-> <<>>, h |-> 1, done |-> {}, pub |-> {},
        cust |-> [t \in ExtTokens(Cfg(s), c) |->
                    LET home == {d \in DOMAIN s.sup : HomeToken(Cfg(s), d).id # 0 /\ HomeToken(Cfg(s), d).ext = t /\ HomeToken(Cfg(s), d).chain = c}
                    IN IF home = {} THEN 0 ELSE LET d == CHOOSE d \in home : TRUE IN ConvDec(18, HomeToken(Cfg(s), d).dec, s.sup[d])],
        lbn  |-> [t \in ExtTokens(Cfg(s), c) |-> 0]]]

\* every batch the hub ever offered for signing stays known to relayers (pub), whatever the hub does with it later
XwObserve(xw, s) == [c \in DOMAIN xw |-> [xw[c] EXCEPT !.pub = @ \cup s.ch[c].bat]]

\* what the Hub2 contract checks before paying a batch out (signatures aside): a fresh nonce for the token and a
\* timeout that has not passed.  The Minter multisig executes what the hub still holds.
ContractAccepts(xw, c, b) == b.n > xw[c].lbn[b.tok] /\ (c = "minter" \/ xw[c].h + 1 < b.to)

\* the external effect of a scripted action of the external world
XwApply(xw, a) ==
    CASE a.k = "ExtDeposit" -> [xw EXCEPT ![a.chain].log = Append(@, a.ev), ![a.chain].h = a.ev.eh,
                                          ![a.chain].cust[a.ev.tok] = @ + a.ev.amt]
      \* (a.cold: the part of the payout that goes to the chain's cold storage address: it stays in the bridge's custody)
      [] a.k = "ExtExec"    -> [xw EXCEPT ![a.chain].log = Append(@, a.ev), ![a.chain].h = a.ev.eh,
                                          ![a.chain].lbn[a.ev.tok] = a.ev.bn, ![a.chain].cust[a.ev.tok] = @ - a.paid + (IF "cold" \in DOMAIN a THEN a.cold ELSE 0),
                                          ![a.chain].done = @ \cup {<<a.ev.tok, a.ev.bn>>}]
      [] a.k = "ExtMine"    -> [xw EXCEPT ![a.chain].h = @ + a.n]
      [] OTHER -> xw

\* ---------------------------------------------------------------- C01 solvency
\* a transfer whose batch the external chain has already executed is no longer in flight: only its fee and
\* commission (kept by the contract, to be minted by the hub when the execution is attested) remain owed
PaidOut(s, xw, c) == UNION {RangeOf(b.txs) : b \in {b \in s.ch[c].bat : <<b.tok, b.n>> \in xw[c].done}}
Owed(s, xw, c, tr) ==
    LET tok == TokByExt(Cfg(s), c, tr.tok)
    IN IF IsColdTransfer(c, tr) THEN 0       \* a governance transfer to cold storage moves collateral inside the custody: nobody is owed
       ELSE IF tr \in PaidOut(s, xw, c) THEN ConvDec(tok.dec, 18, tr.f + tr.c) ELSE ConvDec(tok.dec, 18, tr.a + tr.f + tr.c)
InFlight(s, xw, c, d) ==
    FoldSet(LAMBDA tr, acc : acc + Owed(s, xw, c, tr), 0, {tr \in LiveTrs(s, c) : DenomOfTr(s, c, tr) = d})
Custody(s, xw, c, d) ==
    LET toks == {t \in RangeOf(Cfg(s).tokens) : t.chain = c /\ t.denom = d}
    IN FoldSet(LAMBDA t, acc : acc + ConvDec(t.dec, 18, Get(xw[c].cust, t.ext, 0)), 0, toks)     \* (a token added by governance has no custody yet)
Liabilities(s, xw, d) == s.sup[d] + FoldSet(LAMBDA c, acc : acc + InFlight(s, xw, c, d), 0, ExtChainsOf(Cfg(s)))
Collateral(s, xw, d)  == FoldSet(LAMBDA c, acc : acc + Custody(s, xw, c, d), 0, ExtChainsOf(Cfg(s)))
Solvent(s, xw) == \A d \in DOMAIN s.sup : Liabilities(s, xw, d) <= Collateral(s, xw, d)
\* with the history variable: vouchers that the refund of an expired cold-storage transfer left on the transit account are
\* the recorded finding C01-cold-storage-refund (reported where it happens, C01:ColdStorageRefundMinted), not a new insolvency
SolventG(s, xw, g) ==
    \A d \in DOMAIN s.sup : Liabilities(s, xw, d) - (IF "ColdRefundToTransit" \in Dev THEN g.cold[d] ELSE 0) <= Collateral(s, xw, d)

\* the hub-side liability (supply + everything still owed to external recipients) of a denom
HubLiab(s, d) == s.sup[d] + FoldSet(LAMBDA c, acc : acc + FoldSet(LAMBDA tr, a2 : a2 + HubValue(s, c, tr), 0,
                                        {tr \in LiveTrs(s, c) : DenomOfTr(s, c, tr) = d}), 0, Chains(s) \ {"hub"})
\* value the deposits applied in this step brought in, per denom (converted, truncating)
DepositedNow(pre, post, d) ==
    FoldSet(LAMBDA c, acc : acc +
        FoldSet(LAMBDA ev, a2 : a2 + (LET tok == TokByExt(Cfg(pre), c, ev.tok)
                                      IN IF Found(tok) /\ tok.denom = d THEN ConvDec(tok.dec, 18, ev.amt) ELSE 0), 0,
                {ev \in AppliedEvents(pre, post, c) : ev.t \in {"Deposit", "ToHub"}}), 0, Chains(pre) \ {"hub"})
\* C01: the liability grows only in an End step and by at most what the applied deposits locked
\* (a passed cold-storage proposal creates a transfer of its amount without taking it from anybody)
C01Step(pre, a, post) ==
    UNION {Fail(HubLiab(post, d) - HubLiab(pre, d) > (IF a.k = "End" THEN DepositedNow(pre, post, d)
                                                        ELSE IF a.k = "Gov" /\ a.p = "ColdStorage" THEN SumOver(a.coins, LAMBDA cn : IF cn[1] = d THEN cn[2] ELSE 0) ELSE 0), "C01:MintOnlyByDeposit", d)
           : d \in DOMAIN pre.sup}
    \* a cold-storage transfer that expires is "refunded" to the transit account: vouchers nobody locked anything for
    \* (the transit account's balance grows by what the refund minted; every other flow through it nets to zero within a step)
    \cup UNION {Fail(a.k = "End" /\ \E d \in DOMAIN pre.sup :
                          LET lost == ColdRefundedNow(pre, post, c, d) IN
                          lost # {} /\ post.bal["tmp"][d] - pre.bal["tmp"][d] >= FoldSet(LAMBDA tr, acc : acc + HubValue(pre, c, tr), 0, lost),
                     "C01:ColdStorageRefundMinted", c) : c \in Chains(pre) \ {"hub"}}

=============================================================================
