SPECIFICATION SpecEvm2
CONSTANTS
  UseStaticCfg = TRUE
  StaticCfg <- EvmCfg
  Dev = {"RefundTruncatedDust"}
  Family = "evm"
  EvmChain = "ethereum"
  MaxLen = 5
  Amts = {101}
  Fees = {3}
  Users = {"a3"}
  SendChains = {"ethereum"}
  Denoms = {"hub"}
  DepChains = {"ethereum"}
  DepDests = {"hub"}
  MaxSends = 8
  MaxDeposits = 5
  MaxBlocks = 30
  Orchs = {"o1", "o2", "o3"}
  Exts = {"e1", "e2", "e3"}
  KeyChains = {"ethereum"}
  KeyVariants = {"good"}
  DepAmts = {40}
  DepFees = {0}
  WithKeysAndPrices = FALSE
  FeePaids = {1}
  StakePowers = {1, 3}
  WatchNames = {}
  KeepHist = FALSE
  TwoLevel = FALSE
  EmitScripts = FALSE
VIEW ViewEvm
INVARIANT InStepInv
INVARIANT LogInv
INVARIANT WithdrawnNeverExecutable
INVARIANT SolvencyEvm
CHECK_DEADLOCK FALSE
