----------------------------- MODULE MC_Oracle -----------------------------
(***************************************************************************)
(* Bounded model of the price / holders oracle: validators with unequal    *)
(* powers report prices and holder lists (repeatedly, for stale and future *)
(* epochs, with required prices missing, conflicting lists), powers        *)
(* change, blocks pass across epoch boundaries (every 5th height).         *)
(* Exhaustive: C18 predicates on every transition.  Simulation: scripts    *)
(* for replay on the real application.                                     *)
(***************************************************************************)
EXTENDS Oracle, Json, IOUtils

CONSTANTS MaxLen, KeepHist, EmitScripts, TwoLevel, HubPrices, Claimers

VARIABLES o, stk, h, inb, hist, bad, cnt, pick
vars == <<o, stk, h, inb, hist, bad, cnt, pick>>

Vals == {"v1", "v2", "v3"}
Lists == { <<<<"e5", 3>>>>, <<<<"e5", 3>>, <<"e6", 40>>>> }
Denoms == {"hub", "usd"}
Tot(s) == TotalBonded(s)

\* scripts/cfg_oracle.json: powers 1, 2, 3
Init == /\ o = [ep |-> 1, pr |-> <<>>, hold |-> <<>>, att |-> {}, claims |-> {}]
        /\ stk = [v \in Vals |-> [b |-> TRUE, x |-> TRUE, p |-> CASE v = "v1" -> 1 [] v = "v2" -> 2 [] OTHER -> 3]]
        /\ h = 0 /\ inb = FALSE /\ hist = <<>> /\ bad = {} /\ cnt = 0 /\ pick = ""

St(oo, ss, hh) == [or |-> oo, stk |-> ss, tot |-> Tot(ss), h |-> hh]
Record(act, o2, s2, h2) ==
    /\ hist' = IF KeepHist THEN Append(hist, [act EXCEPT !.i = cnt + 1]) ELSE hist
    /\ cnt' = cnt + 1
    /\ bad' = C18Checks(St(o, stk, h), act, St(o2, s2, h2))

Begin == /\ ~inb /\ inb' = TRUE /\ h' = h + 1 /\ UNCHANGED <<o, stk>>
         /\ Record([k |-> "Begin", i |-> 0, dt |-> 1], o, stk, h + 1)
End   == /\ inb /\ inb' = FALSE /\ UNCHANGED <<h, stk>>
         /\ o' = OracleEndBlock(o, stk, Tot(stk), h)
         /\ Record([k |-> "End", i |-> 0], o', stk, h)
\* n whole blocks without transactions
Blocks == /\ ~inb /\ \E n \in {2, 3} :
               LET F[k \in 0..n] == IF k = 0 THEN o ELSE OracleEndBlock(F[k - 1], stk, Tot(stk), h + k)
               IN /\ o' = F[n] /\ h' = h + n
                  /\ hist' = IF KeepHist THEN Append(hist, [k |-> "Blocks", i |-> cnt + 1, n |-> n]) ELSE hist
                  /\ cnt' = cnt + 1 /\ bad' = {}
          /\ UNCHANGED <<stk, inb>>

BasePrices(hub, eth) == ("eth" :> eth) @@ ("ethereum/gas" :> 4) @@ ("bnb" :> 4) @@ ("bsc/gas" :> 4) @@ ("hub" :> hub) @@ ("usd" :> 8)
Price ==
    /\ inb
    /\ \E by \in Claimers, ep \in {o.ep - 1, o.ep, o.ep + 1}, hub \in HubPrices, eth \in {4, 8}, missing \in {FALSE, TRUE} :
         /\ ep >= 1
         /\ LET pr  == IF missing THEN [n \in DOMAIN BasePrices(hub, eth) \ {"usd"} |-> BasePrices(hub, eth)[n]] ELSE BasePrices(hub, eth)
                act == [k |-> "Price", i |-> 0, by |-> by, ep |-> ep, pr4 |-> pr]
                r   == PriceClaim(o, stk, Denoms, [by |-> by, ep |-> ep, pr |-> pr])
            IN /\ o' = r.o /\ Record(act, r.o, stk, h)
    /\ UNCHANGED <<stk, h, inb>>
Holders ==
    /\ inb
    /\ \E by \in Claimers, ep \in {o.ep, o.ep + 1}, l \in Lists :
         LET act == [k |-> "Holders", i |-> 0, by |-> by, ep |-> ep, list |-> l]
             r   == HoldersClaim(o, stk, [by |-> by, ep |-> ep, list |-> l])
         IN /\ o' = r.o /\ Record(act, r.o, stk, h)
    /\ UNCHANGED <<stk, h, inb>>
\* power changes become effective in the staking end blocker of the same block (before the oracle's)
StakeChange ==
    /\ inb
    /\ \E v \in Vals, p \in {1, 2, 3, 5} :
          /\ p # stk[v].p
          /\ stk' = [stk EXCEPT ![v].p = p]
          /\ hist' = IF KeepHist THEN Append(hist, [k |-> "Stake", i |-> cnt + 1, val |-> v, p |-> p]) ELSE hist
          /\ cnt' = cnt + 1 /\ bad' = {}
    /\ UNCHANGED <<o, h, inb>>

\* one pass of a validator's oracle service (the REAL relayPricesAndHolders in replay): its claims are applied in order
ServedLists == { <<<<"e5", 3>>>>, <<<<"e5", 3>>, <<"e6", 40>>>>, <<<<"e5", 3>>, <<"e6", 40>>, <<"e8", 0>>>>, <<<<"e5", 3>>, <<"e6", 1>>>> }
OrcRelay ==
    /\ inb
    /\ \E v \in Vals, hub \in HubPrices, eth \in {4, 8}, l \in ServedLists :
         LET served == [pr4 |-> BasePrices(hub, eth), list |-> l]
             outs == ServiceClaims(o, v, served, 2)
             F[k \in 0..Len(outs)] ==
                 IF k = 0 THEN o
                 ELSE IF outs[k].k = "Price" THEN PriceClaim(F[k - 1], stk, Denoms, [by |-> v, ep |-> outs[k].ep, pr |-> outs[k].pr4]).o
                 ELSE HoldersClaim(F[k - 1], stk, [by |-> v, ep |-> outs[k].ep, list |-> outs[k].list]).o
         IN /\ o' = F[Len(outs)]
            /\ hist' = IF KeepHist THEN Append(hist, [k |-> "OrcRelay", i |-> cnt + 1, by |-> v, pr4 |-> served.pr4, list |-> l, period |-> 2]) ELSE hist
            /\ cnt' = cnt + 1 /\ bad' = {}
    /\ UNCHANGED <<stk, h, inb>>

KindSet == {"Begin", "End", "Blocks", "Price", "Holders", "StakeChange", "OrcRelay", "OrcRelay2"}
ActionOf(kind) == CASE kind = "Begin" -> Begin [] kind = "End" -> End [] kind = "Blocks" -> Blocks [] kind = "Price" -> Price
                    [] kind = "Holders" -> Holders [] kind = "StakeChange" -> StakeChange [] kind \in {"OrcRelay", "OrcRelay2"} -> OrcRelay [] OTHER -> FALSE
Next ==
    /\ cnt < MaxLen
    /\ IF ~TwoLevel THEN (\E kind \in KindSet : ActionOf(kind)) /\ pick' = ""
       ELSE IF pick = "" THEN /\ \E kind \in KindSet : ENABLED ActionOf(kind) /\ pick' = kind
                              /\ UNCHANGED <<o, stk, h, inb, hist, bad, cnt>>
            ELSE ActionOf(pick) /\ pick' = ""
Spec == Init /\ [][Next]_vars
View == <<o, stk, h, inb, bad>>

DumpCex == IF KeepHist THEN JsonSerialize(IOEnv.VERIF_CEX, hist) ELSE TRUE
NoC18Violation == bad = {} \/ (DumpCex /\ FALSE)
Emit == IF EmitScripts /\ cnt >= MaxLen
        THEN JsonSerialize(IOEnv.VERIF_OUT \o "/s" \o ToString(TLCGet("stats").traces) \o ".json", hist) ELSE TRUE
=============================================================================
