---------------------------- MODULE TraceOracle ----------------------------
(***************************************************************************)
(* Trace validation for the oracle module (C18): every recorded step of    *)
(* the real application is checked against Oracle.tla -- the observed      *)
(* oracle state after a price / holders claim, an EndBlock or a run of     *)
(* empty blocks must equal the specification's, and the C18 predicates are *)
(* evaluated on (pre, action, post).  Same report mechanism as Trace.tla.  *)
(***************************************************************************)
EXTENDS Oracle, Json, IOUtils

Trace == ndJsonDeserialize(IOEnv.VERIF_TRACE)

VARIABLES l, fails, hist
vars == <<l, fails, hist>>

AttOfJ(j)   == [ep |-> j.ep, kind |-> j.kind, voters |-> j.voters, obs |-> j.obs]
ClaimOfJ(j) == IF j.kind = "price" THEN [by |-> j.by, kind |-> "price", ep |-> j.ep, pr |-> j.pr]
               ELSE [by |-> j.by, kind |-> "holders", ep |-> j.ep, list |-> NormList(j.list)]
OrOf(j) == [ep |-> j.ep, pr |-> j.pr, hold |-> NormList(j.hold),
            att |-> {AttOfJ(j.att[i]) : i \in DOMAIN j.att}, claims |-> {ClaimOfJ(j.claims[i]) : i \in DOMAIN j.claims}]
StOf(p) == [or |-> OrOf(p["or"]), stk |-> p.stk, tot |-> p.tot, h |-> p.h]
Dead(j) == "dead" \in DOMAIN j

Denoms(reset) == {reset.cfg.tokens[i].denom : i \in DOMAIN reset.cfg.tokens}

SameOr(e, o) ==
       (IF e.ep # o.ep THEN {<<"conf:or", "epoch">>} ELSE {})
  \cup (IF e.pr # o.pr THEN {<<"conf:or", "prices">>} ELSE {})
  \cup (IF ~SameList(e.hold, o.hold) THEN {<<"conf:or", "holders">>} ELSE {})
  \cup (IF e.att # o.att THEN {<<"conf:or", "attestations">>} ELSE {})
  \cup (IF e.claims # o.claims THEN {<<"conf:or", "claims">>} ELSE {})

Expected(pre, a, post, denoms) ==
    CASE a.k = "Price"   -> PriceClaim(pre["or"], pre.stk, denoms, [by |-> a.by, ep |-> a.ep, pr |-> a.pr4])
      [] a.k = "Holders" -> HoldersClaim(pre["or"], pre.stk, [by |-> a.by, ep |-> a.ep, list |-> a.list])
      [] a.k = "End"     -> [out |-> "ok", o |-> OracleEndBlock(pre["or"], post.stk, post.tot, pre.h)]
      [] a.k = "Blocks"  -> [out |-> "ok", o |-> LET F[k \in 0..a.n] == IF k = 0 THEN pre["or"] ELSE OracleEndBlock(F[k - 1], post.stk, post.tot, pre.h + k) IN F[a.n]]
      [] OTHER           -> [out |-> "ok", o |-> pre["or"]]

Checks(pre, a, res, post, denoms) ==
    LET e == Expected(pre, a, post, denoms)
        cls == IF res.out \in {"ok", "err"} THEN res.out ELSE "panic"
    IN   (IF a.k \in {"Price", "Holders"} /\ "pr4" \in DOMAIN a \cup {"pr4"} /\ e.out # cls THEN {<<"conf:or", "out">>} ELSE {})
    \cup (IF cls = "ok" /\ e.out = "ok" THEN SameOr(e.o, post["or"]) ELSE {})
    \cup (IF cls = "err" /\ pre["or"] # post["or"] THEN {<<"C18:FailedClaimChangedState", "">>} ELSE {})
    \cup (IF a.k # "Blocks" THEN C18Checks(pre, a, post) ELSE {})
    \cup (IF a.k \in {"Begin", "End", "Blocks"} /\ res.out # "ok" THEN {<<"C05:BlockOpsTotal", res.out>>} ELSE {})

\* a pass of the REAL oracle service (line "OrcRelay": res.outs = the claims it committed, already consumed as ordinary
\* steps; `call` = the state when it was called): it claims exactly what the service specification says
ClaimCore(a) == IF a.k = "Price" THEN [k |-> "Price", by |-> a.by, ep |-> a.ep, pr4 |-> a.pr4]
                ELSE IF a.k = "Holders" THEN [k |-> "Holders", by |-> a.by, ep |-> a.ep, list |-> NormList(a.list)] ELSE [k |-> a.k]
ServiceChecks(call, a, res) ==
    IF a.k # "OrcRelay" THEN {}
    ELSE IF res.out # "ok" THEN {<<"C18:ServiceFails", res.out>>}
    ELSE IF [i \in DOMAIN res.outs |-> ClaimCore(res.outs[i])]
            # LET want == ServiceClaims(call["or"], a.by, [pr4 |-> a.pr4, list |-> a.list], res.period) IN [i \in DOMAIN want |-> ClaimCore(want[i])]
         THEN {<<"C18:ServiceClaims", a.by>>} ELSE {}

InitHist == [pre |-> <<>>, call |-> <<>>, denoms |-> {}, n |-> 0, id |-> "", viol |-> {}, cov |-> <<>>]
Bump(cov, key) == Put(cov, key, Get(cov, key, 0) + 1)
Init == l = 0 /\ fails = {} /\ hist = InitHist

ConsumeReset ==
    /\ l < Len(Trace) /\ Trace[l + 1].k = "reset"
    /\ hist' = [hist EXCEPT !.pre = StOf(Trace[l + 1].post), !.denoms = Denoms(Trace[l + 1]), !.n = @ + 1, !.id = Trace[l + 1].id]
    /\ fails' = {} /\ l' = l + 1
ConsumeStep ==
    /\ l < Len(Trace) /\ Trace[l + 1].k = "step"
    /\ LET line == Trace[l + 1] IN
       IF Dead(line.post)
       THEN /\ fails' = {<<"C05:BlockOpsTotal", line.res.out>>}
            /\ hist' = [hist EXCEPT !.viol = @ \cup {<<hist.id, line.i, f[1], f[2]>> : f \in fails'}, !.cov = Bump(@, line.act.k \o "/" \o line.res.out)]
       ELSE LET post == StOf(line.post)
                oracleAct == line.act.k \in {"Price", "Holders", "End", "Blocks", "Begin", "Stake"}
            IN /\ fails' = (IF oracleAct THEN Checks(hist.pre, line.act, line.res, post, hist.denoms) ELSE {}) \cup ServiceChecks(hist.call, line.act, line.res)
               /\ hist' = [hist EXCEPT !.pre = post, !.call = IF line.act.k = "OrcCall" THEN post ELSE @, !.viol = @ \cup {<<hist.id, line.i, f[1], f[2]>> : f \in fails'},
                                       !.cov = LET c1 == Bump(@, line.act.k \o "/" \o line.res.out)
                                                   c2 == IF hist.pre["or"].pr # post["or"].pr THEN Bump(c1, "PricesChanged") ELSE c1
                                                   c3 == IF hist.pre["or"].hold # post["or"].hold THEN Bump(c2, "HoldersChanged") ELSE c2
                                                   c4 == IF \E x \in post["or"].att : Len(x.voters) >= 2 THEN Bump(c3, "AttWithSeveralVoters") ELSE c3
                                               IN c4]
    /\ l' = l + 1
Next == ConsumeReset \/ ConsumeStep
Spec == Init /\ [][Next]_vars

Record == TLCSet(1, [viol |-> hist.viol, cov |-> hist.cov, traces |-> hist.n, lines |-> l])
Consumed == TLCGet("stats").diameter - 1 = Len(Trace)
Report == Consumed /\ JsonSerialize(IOEnv.VERIF_REPORT, TLCGet(1))
=============================================================================
