SPECIFICATION Spec
CONSTRAINT Record
POSTCONDITION Report
CHECK_DEADLOCK FALSE
