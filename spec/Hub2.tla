-------------------------------- MODULE Hub2 --------------------------------
(***************************************************************************)
(* The Hub2 bridge contract (solidity/contracts/Hub2.sol) as far as the    *)
(* hub depends on it, transcribed with every `require`:                    *)
(*   makeCheckpoint, checkValidatorSignatures, updateValset, submitBatch,  *)
(*   transferToChain.                                                      *)
(* A contract state is                                                     *)
(*   [blk, vsn, evn, set |-> [n, m |-> <<<<address, power>>, ..>>],        *)
(*    lbn : token -> nonce, cust : token -> amount, thr]                   *)
(* with powers and the threshold as 16-bit limb pairs.  The checkpoint is  *)
(* a hash of (gravity id, "checkpoint", nonce, members, powers): the       *)
(* contract stores only the hash, the model stores the pre-image `set`.    *)
(*                                                                         *)
(* Used (a) to decide what the REAL bytecode must answer to a relayer      *)
(* submission recorded in a trace (C08 AcceptIffQuorum / Executable /      *)
(* NothingOnLess) and (b) in the bounded models of the evm family.         *)
(***************************************************************************)
EXTENDS Hub

\* a submission carries, for every member of the set the relayer supplies as "current", one of
\*   "none" (v = 0), "ok" (a signature by that member over the right digest), "bad" (anything else)
\* checkValidatorSignatures: members are visited in order; a supplied signature must verify (else revert);
\* the loop stops as soon as the cumulative power exceeds the threshold; finally the power must exceed it.
CheckSigs(members, marks, thr) ==
    LET F[i \in 0..Len(members)] ==
          IF i = 0 THEN [cum |-> <<0, 0>>, stop |-> FALSE, bad |-> FALSE]
          ELSE LET p == F[i - 1] IN
               IF p.stop \/ p.bad \/ marks[i] = "none" THEN p
               ELSE IF marks[i] = "bad" THEN [p EXCEPT !.bad = TRUE]
               ELSE LET c == LAdd(p.cum, members[i][2]) IN [cum |-> c, stop |-> LLess(thr, c), bad |-> FALSE]
        r == F[Len(members)]
    IN ~r.bad /\ LLess(thr, r.cum)

\* updateValset(new set, new nonce, supplied current set, its nonce, signatures)
UpdateAccepts(k, newNonce, supplied, marks) ==
    /\ newNonce > supplied.n
    /\ supplied = k.set                                   \* makeCheckpoint(supplied) = state_lastValsetCheckpoint
    /\ Len(marks) = Len(supplied.m)
    /\ CheckSigs(supplied.m, marks, k.thr)
AfterUpdate(k, newSet) == [k EXCEPT !.set = newSet, !.vsn = newSet.n, !.evn = @ + 1, !.blk = @ + 1]

\* submitBatch(supplied current set, signatures, batch)
BatchAccepts(k, supplied, marks, b) ==
    /\ Get(k.lbn, b.tok, 0) < b.n                        \* new batch nonce must be greater than the last one of the token
    /\ k.blk + 1 < b.to                                   \* block.number of the executing block < batch timeout
    /\ supplied = k.set
    /\ Len(marks) = Len(supplied.m)
    /\ CheckSigs(supplied.m, marks, k.thr)
    /\ SumOver(b.txs, LAMBDA tr : tr.a) <= Get(k.cust, b.tok, 0)   \* the token transfers out of the contract's own balance must succeed
AfterBatch(k, b) ==
    [k EXCEPT !.lbn = Put(@, b.tok, b.n), !.evn = @ + 1, !.blk = @ + 1,
              !.cust = Put(@, b.tok, Get(@, b.tok, 0) - SumOver(b.txs, LAMBDA tr : tr.a))]

\* the power of the members of the contract's current set that have a valid confirmation for a digest
ConfirmedPower(members, marks) ==
    FoldLeft(LAMBDA acc, i : IF marks[i] = "ok" THEN LAdd(acc, members[i][2]) ELSE acc, <<0, 0>>, [i \in DOMAIN members |-> i])

=============================================================================
