SPECIFICATION Spec
CONSTANTS
  UseStaticCfg = TRUE
  StaticCfg <- DefaultCfg
  Dev = {"RefundTruncatedDust"}
  Family = "econ"
  MaxLen = 40
  Amts = {10, 101, 7, 5000}
  Fees = {0, 3, 1}
  Users = {"a1", "a2"}
  SendChains = {"ethereum", "minter"}
  Denoms = {"usd", "hub"}
  DepChains = {"minter", "ethereum"}
  DepDests = {"hub", "ethereum", "minter"}
  MaxSends = 8
  MaxDeposits = 5
  MaxBlocks = 30
  TwoLevel = TRUE
  EmitScripts = TRUE
CONSTRAINT Emit
INVARIANT NoStepViolation
INVARIANT Solvency
CHECK_DEADLOCK FALSE
