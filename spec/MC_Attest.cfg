SPECIFICATION Spec
CONSTANTS
  UseStaticCfg = TRUE
  StaticCfg <- DefaultCfg
  Dev = {"RefundTruncatedDust"}
  Family = "attest"
  MaxLen = 9
  Amts = {10, 101}
  Fees = {0, 3}
  Users = {"a1"}
  SendChains = {"ethereum"}
  Denoms = {"usd"}
  DepChains = {"minter"}
  DepDests = {"hub", "ethereum"}
  MaxSends = 2
  MaxDeposits = 1
  MaxBlocks = 3
  TwoLevel = FALSE
  EmitScripts = FALSE
VIEW View
INVARIANT NoStepViolation
CHECK_DEADLOCK FALSE
