SPECIFICATION SpecM
CONSTANTS
  UseStaticCfg = TRUE
  StaticCfg <- DefaultCfg
  Dev = {"RefundTruncatedDust"}
  Family = "minter"
  MaxLen = 70
  Amts = {10, 101}
  Fees = {0, 3}
  Users = {"a3"}
  SendChains = {"minter"}
  Denoms = {"usd", "hub"}
  DepChains = {"minter"}
  DepDests = {"hub", "ethereum"}
  MaxSends = 8
  MaxDeposits = 9
  MaxBlocks = 30
  Orchs = {"o1", "o2", "o3"}
  Exts = {"e1", "e2", "e3"}
  KeyChains = {"minter"}
  KeyVariants = {"good"}
  DepAmts = {400, 70}
  DepFees = {0, 5}
  WithKeysAndPrices = TRUE
  FeePaids = {1}
  StakePowers = {0, 1, 2, 3}
  WatchNames = {}
  KeepHist = TRUE
  TwoLevel = TRUE
  EmitScripts = TRUE
CONSTRAINT Emit
INVARIANT CursorsConsistent
INVARIANT VotesAreReference
INVARIANT InStepM
INVARIANT SolvencyM
CHECK_DEADLOCK FALSE
