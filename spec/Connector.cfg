SPECIFICATION Spec
CONSTANTS
  Dev = {}
  Kinds = {"D", "I", "B", "V"}
  MaxBlocks = 2
  MaxTx = 2
INVARIANT CursorConsistent
CHECK_DEADLOCK FALSE
