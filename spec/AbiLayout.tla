----------------------------- MODULE AbiLayout -----------------------------
(***************************************************************************)
(* C07: the digest validators sign equals the keccak256 of the ABI         *)
(* encoding the Hub2 contract computes for the same data.                  *)
(*                                                                         *)
(* The module specifies Solidity's abi.encode for the three checkpoint     *)
(* tuples of Hub2.sol as a sequence of 32-byte slots:                      *)
(*   <<"num", v>>          an integer the layout itself determines         *)
(*                         (offsets of dynamic arguments, array lengths)   *)
(*   <<"leaf", name, i>>   the i-th value of the named argument            *)
(*   <<"bytes", len>>      the payload bytes, right padded to a multiple   *)
(*                         of 32 (len / 32 rounded up slots)               *)
(* Head: one slot per argument, a dynamic argument's slot holds the byte   *)
(* offset of its tail from the start of the encoding; tails follow in      *)
(* argument order; an array tail is its length and its elements.           *)
(*                                                                         *)
(* TLC enumerates every shape of the bounded space (one state per shape)   *)
(* and writes the slot vectors out; the harness fills the leaves from a    *)
(* value table (0, 1, 2^255, 2^256-1, 2^64-1, addresses with leading zero  *)
(* bytes, gravity ids of 0..32 bytes), hashes the bytes with keccak256 and *)
(* compares with SignerSetTx / BatchTx / ContractCallTx.GetCheckpoint.     *)
(*                                                                         *)
(* Sigs: the signing scheme as an injective pairing -- a signature made    *)
(* with key i over digest j verifies for (address k, digest l) iff i = k   *)
(* and j = l; the vectors are checked against NewEthereumSignature /       *)
(* ValidateEthereumSignature and an independent ecrecover over             *)
(* "\x19Ethereum Signed Message:\n32" || digest.                            *)
(***************************************************************************)
EXTENDS Integers, Sequences, FiniteSets, SequencesExt, TLC, Json, IOUtils

Num(v) == <<"num", v>>
Leaf(name, i) == <<"leaf", name, i>>
Leaves(name, n) == [i \in 1..n |-> Leaf(name, i)]
ArrayTail(name, n) == <<Num(n)>> \o Leaves(name, n)
Words(len) == (len + 31) \div 32

\* checkpoint(gravityId, "checkpoint", nonce, validators[], powers[])
ValsetLayout(n) ==
    LET head == 5 * 32 IN
    << Leaf("gravityId", 1), Leaf("method", 1), Leaf("nonce", 1), Num(head), Num(head + 32 + 32 * n) >>
    \o ArrayTail("validators", n) \o ArrayTail("powers", n)

\* submitBatch(gravityId, "transactionBatch", amounts[], destinations[], fees[], batchNonce, tokenContract, batchTimeout)
BatchLayout(k) ==
    LET head == 8 * 32
        arr  == 32 + 32 * k
    IN << Leaf("gravityId", 1), Leaf("method", 1), Num(head), Num(head + arr), Num(head + 2 * arr),
          Leaf("batchNonce", 1), Leaf("token", 1), Leaf("timeout", 1) >>
       \o ArrayTail("amounts", k) \o ArrayTail("destinations", k) \o ArrayTail("fees", k)

\* logicCall(gravityId, "logicCall", transferAmounts[], transferTokens[], feeAmounts[], feeTokens[], logicContract, payload,
\*           timeout, invalidationId, invalidationNonce)
LogicLayout(t, f, plen) ==
    LET head == 11 * 32
        ta == 32 + 32 * t
        fa == 32 + 32 * f
    IN << Leaf("gravityId", 1), Leaf("method", 1), Num(head), Num(head + ta), Num(head + 2 * ta), Num(head + 2 * ta + fa),
          Leaf("logic", 1), Num(head + 2 * ta + 2 * fa), Leaf("timeout", 1), Leaf("invalidationId", 1), Leaf("invalidationNonce", 1) >>
       \o ArrayTail("transferAmounts", t) \o ArrayTail("transferTokens", t) \o ArrayTail("feeAmounts", f) \o ArrayTail("feeTokens", f)
       \o <<Num(plen)>> \o (IF plen = 0 THEN <<>> ELSE << <<"bytes", plen>> >>)

\* the bounded shape space
GidLens == {0, 1, 31, 32}
Shapes ==
       {[kind |-> "valset", n |-> n, gid |-> g, variant |-> v] : n \in 0..4, g \in GidLens, v \in 1..3}
  \cup {[kind |-> "batch", k |-> k, gid |-> g, variant |-> v] : k \in {0, 1, 2, 3, 100}, g \in GidLens, v \in 1..3}
  \cup {[kind |-> "logic", t |-> t, f |-> f, plen |-> p, gid |-> g, variant |-> v, slen |-> 32] : t \in 0..2, f \in 0..2, p \in {0, 1, 31, 32, 33, 64, 65}, g \in {0, 32}, v \in 1..2}
       \* the invalidation scope is a byte string on the hub and a bytes32 in the contract: slen bytes, left aligned
  \cup {[kind |-> "logic", t |-> 1, f |-> 1, plen |-> 33, gid |-> 32, variant |-> v, slen |-> sl] : sl \in {0, 1, 14, 20, 31, 33, 40}, v \in 1..2}

LayoutOf(s) ==
    CASE s.kind = "valset" -> ValsetLayout(s.n)
      [] s.kind = "batch"  -> BatchLayout(s.k)
      [] s.kind = "logic"  -> LogicLayout(s.t, s.f, s.plen)

\* well-formedness of a layout: offsets point at the length word of the tails, in order, and the total size is consistent
SlotCount(l) == Len(l)
ByteSize(l) == LET bs == {i \in DOMAIN l : l[i][1] = "bytes"}       \* (at most one payload slot group per layout)
               IN 32 * (Len(l) - Cardinality(bs)) + (IF bs = {} THEN 0 ELSE 32 * Words(l[CHOOSE i \in bs : TRUE][2]))
OffsetsOk(s) ==
    LET l == LayoutOf(s)
        nums == {i \in DOMAIN l : l[i][1] = "num"}
    IN CASE s.kind = "valset" -> l[4][2] = 160 /\ l[l[4][2] \div 32 + 1] = Num(s.n) /\ l[l[5][2] \div 32 + 1] = Num(s.n) /\ ByteSize(l) = 160 + 2 * (32 + 32 * s.n)
         [] s.kind = "batch"  -> l[l[3][2] \div 32 + 1] = Num(s.k) /\ l[l[4][2] \div 32 + 1] = Num(s.k) /\ l[l[5][2] \div 32 + 1] = Num(s.k)
                                 /\ ByteSize(l) = 256 + 3 * (32 + 32 * s.k)
         [] s.kind = "logic"  -> l[l[3][2] \div 32 + 1] = Num(s.t) /\ l[l[4][2] \div 32 + 1] = Num(s.t) /\ l[l[5][2] \div 32 + 1] = Num(s.f)
                                 /\ l[l[6][2] \div 32 + 1] = Num(s.f) /\ l[l[8][2] \div 32 + 1] = Num(s.plen)
                                 /\ ByteSize(l) = 352 + 2 * (32 + 32 * s.t) + 2 * (32 + 32 * s.f) + 32 + 32 * Words(s.plen)

VARIABLE shape
Init == shape \in Shapes
Next == UNCHANGED shape
Spec == Init /\ [][Next]_shape
LayoutWellFormed == OffsetsOk(shape)

\* signature scheme vectors: (signing key i, signed digest j, claimed address k, checked digest l) -> accepted iff i = k /\ j = l
SigVectors == {[i |-> i, j |-> j, k |-> k, l |-> l, accept |-> (i = k /\ j = l)] : i \in 1..3, j \in 1..3, k \in 1..3, l \in 1..3}

ASSUME IF "VERIF_OUT" \in DOMAIN IOEnv
       THEN /\ JsonSerialize(IOEnv.VERIF_OUT \o "/layouts.json", SetToSeq({[shape |-> s, slots |-> LayoutOf(s)] : s \in Shapes}))
            /\ JsonSerialize(IOEnv.VERIF_OUT \o "/sigs.json", SetToSeq(SigVectors))
       ELSE TRUE
=============================================================================
