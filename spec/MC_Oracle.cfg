SPECIFICATION Spec
CONSTANTS
  OracleDev = {}
  MaxLen = 6
  HubPrices = {4, 12}
  Claimers = {"v1", "v2", "v3"}
  KeepHist = FALSE
  TwoLevel = FALSE
  EmitScripts = FALSE
VIEW View
INVARIANT NoC18Violation
CHECK_DEADLOCK FALSE
