---- MODULE StoreIter_TTrace_1791148892 ----
EXTENDS Sequences, TLCExt, Toolbox, Naturals, TLC, StoreIter

_expression ==
    LET StoreIter_TEExpression == INSTANCE StoreIter_TEExpression
    IN StoreIter_TEExpression!expression
----

_trace ==
    LET StoreIter_TETrace == INSTANCE StoreIter_TETrace
    IN StoreIter_TETrace!trace
----

_inv ==
    ~(
        TLCGet("level") = Len(_TETrace)
        /\
        todo = (0)
        /\
        unsorted = (TRUE)
        /\
        pc = ("nested_open")
        /\
        readers = (1)
        /\
        outer = ([left |-> 1, buf |-> 2, open |-> TRUE])
        /\
        seen = (2)
    )
----

_init ==
    /\ seen = _TETrace[1].seen
    /\ todo = _TETrace[1].todo
    /\ outer = _TETrace[1].outer
    /\ readers = _TETrace[1].readers
    /\ unsorted = _TETrace[1].unsorted
    /\ pc = _TETrace[1].pc
----

_next ==
    /\ \E i,j \in DOMAIN _TETrace:
        /\ \/ /\ j = i + 1
              /\ i = TLCGet("level")
        /\ seen  = _TETrace[i].seen
        /\ seen' = _TETrace[j].seen
        /\ todo  = _TETrace[i].todo
        /\ todo' = _TETrace[j].todo
        /\ outer  = _TETrace[i].outer
        /\ outer' = _TETrace[j].outer
        /\ readers  = _TETrace[i].readers
        /\ readers' = _TETrace[j].readers
        /\ unsorted  = _TETrace[i].unsorted
        /\ unsorted' = _TETrace[j].unsorted
        /\ pc  = _TETrace[i].pc
        /\ pc' = _TETrace[j].pc

\* Uncomment the ASSUME below to write the states of the error trace
\* to the given file in Json format. Note that you can pass any tuple
\* to `JsonSerialize`. For example, a sub-sequence of _TETrace.
    \* ASSUME
    \*     LET J == INSTANCE Json
    \*         IN J!JsonSerialize("StoreIter_TTrace_1791148892.json", _TETrace)

=============================================================================

 Note that you can extract this module `StoreIter_TEExpression`
  to a dedicated file to reuse `expression` (the module in the 
  dedicated `StoreIter_TEExpression.tla` file takes precedence 
  over the module `StoreIter_TEExpression` below).

---- MODULE StoreIter_TEExpression ----
EXTENDS Sequences, TLCExt, Toolbox, Naturals, TLC, StoreIter

expression == 
    [
        \* To hide variables of the `StoreIter` spec from the error trace,
        \* remove the variables below.  The trace will be written in the order
        \* of the fields of this record.
        seen |-> seen
        ,todo |-> todo
        ,outer |-> outer
        ,readers |-> readers
        ,unsorted |-> unsorted
        ,pc |-> pc
        
        \* Put additional constant-, state-, and action-level expressions here:
        \* ,_stateNumber |-> _TEPosition
        \* ,_seenUnchanged |-> seen = seen'
        
        \* Format the `seen` variable as Json value.
        \* ,_seenJson |->
        \*     LET J == INSTANCE Json
        \*     IN J!ToJson(seen)
        
        \* Lastly, you may build expressions over arbitrary sets of states by
        \* leveraging the _TETrace operator.  For example, this is how to
        \* count the number of times a spec variable changed up to the current
        \* state in the trace.
        \* ,_seenModCount |->
        \*     LET F[s \in DOMAIN _TETrace] ==
        \*         IF s = 1 THEN 0
        \*         ELSE IF _TETrace[s].seen # _TETrace[s-1].seen
        \*             THEN 1 + F[s-1] ELSE F[s-1]
        \*     IN F[_TEPosition - 1]
    ]

=============================================================================



Parsing and semantic processing can take forever if the trace below is long.
 In this case, it is advised to uncomment the module below to deserialize the
 trace from a generated binary file.

\*
\*---- MODULE StoreIter_TETrace ----
\*EXTENDS IOUtils, TLC, StoreIter
\*
\*trace == IODeserialize("StoreIter_TTrace_1791148892.bin", TRUE)
\*
\*=============================================================================
\*

---- MODULE StoreIter_TETrace ----
EXTENDS TLC, StoreIter

trace == 
    <<
    ([todo |-> 0,unsorted |-> TRUE,pc |-> "open_outer",readers |-> 0,outer |-> [left |-> 0, buf |-> 0, open |-> FALSE],seen |-> 0]),
    ([todo |-> 0,unsorted |-> FALSE,pc |-> "consume",readers |-> 1,outer |-> [left |-> 5, buf |-> 0, open |-> TRUE],seen |-> 0]),
    ([todo |-> 0,unsorted |-> FALSE,pc |-> "consume",readers |-> 1,outer |-> [left |-> 4, buf |-> 1, open |-> TRUE],seen |-> 0]),
    ([todo |-> 0,unsorted |-> FALSE,pc |-> "nested_open",readers |-> 1,outer |-> [left |-> 4, buf |-> 0, open |-> TRUE],seen |-> 1]),
    ([todo |-> 0,unsorted |-> FALSE,pc |-> "nested_delete",readers |-> 1,outer |-> [left |-> 4, buf |-> 0, open |-> TRUE],seen |-> 1]),
    ([todo |-> 0,unsorted |-> TRUE,pc |-> "consume",readers |-> 1,outer |-> [left |-> 4, buf |-> 0, open |-> TRUE],seen |-> 1]),
    ([todo |-> 0,unsorted |-> TRUE,pc |-> "consume",readers |-> 1,outer |-> [left |-> 3, buf |-> 1, open |-> TRUE],seen |-> 1]),
    ([todo |-> 0,unsorted |-> TRUE,pc |-> "nested_open",readers |-> 1,outer |-> [left |-> 3, buf |-> 0, open |-> TRUE],seen |-> 2]),
    ([todo |-> 0,unsorted |-> TRUE,pc |-> "nested_open",readers |-> 1,outer |-> [left |-> 2, buf |-> 1, open |-> TRUE],seen |-> 2]),
    ([todo |-> 0,unsorted |-> TRUE,pc |-> "nested_open",readers |-> 1,outer |-> [left |-> 1, buf |-> 2, open |-> TRUE],seen |-> 2])
    >>
----


=============================================================================

---- CONFIG StoreIter_TTrace_1791148892 ----
CONSTANTS
    B = 2
    N = 5
    E = 3
    Pattern = "nested"

INVARIANT
    _inv

CHECK_DEADLOCK
    \* CHECK_DEADLOCK off because of PROPERTY or INVARIANT above.
    FALSE

INIT
    _init

NEXT
    _next

CONSTANT
    _TETrace <- _trace

ALIAS
    _expression
=============================================================================
\* Generated on Sun Oct 04 21:21:33 UTC 2026