------------------------------- MODULE Oracle -------------------------------
(***************************************************************************)
(* The price / holders oracle module (x/oracle) as step operators over the *)
(* `or` component of the abstract state, plus the predicates of C18.       *)
(*                                                                         *)
(*   or.ep      current epoch                                              *)
(*   or.pr      name -> 4 * price      (claims carry multiples of 1/2, so  *)
(*                                      means of two values stay integral) *)
(*   or.hold    sequence of <<address, value>>                             *)
(*   or.att     set of [ep, kind, voters (sequence), obs]                  *)
(*   or.claims  set of [by, kind, ep, pr | list]  latest claim per         *)
(*              (validator, kind, epoch)                                   *)
(* Staking (stk: validator -> [b, p], tot) is an input.                    *)
(***************************************************************************)
EXTENDS Util

CONSTANT OracleDev      \* deviation switches of the oracle: "RepeatClaimRecounts", "OracleThresholdFloor"

\* prices every price claim must carry (positive): the gas / base coins and one per bridged denom
Required(denoms) == {"eth", "ethereum/gas", "bnb", "bsc/gas"} \cup denoms

\* floor(p * 65535 / total) over the bonded validators (GetNormalizedValPowers)
Bonded(stk) == {v \in DOMAIN stk : stk[v].b}
TotalBonded(stk) == FoldSet(LAMBDA v, acc : acc + stk[v].p, 0, Bonded(stk))
NPow(stk, v) == IF v \in Bonded(stk) /\ TotalBonded(stk) > 0 THEN (stk[v].p * 65535) \div TotalBonded(stk) ELSE 0

AttOf(o, ep, kind) == {x \in o.att : x.ep = ep /\ x.kind = kind}
ClaimOf(o, by, kind, ep) == {c \in o.claims : c.by = by /\ c.kind = kind /\ c.ep = ep}

\* AddClaim: store / overwrite the validator's claim of this epoch and add its vote to the attestation
AddClaim(o, claim) ==
    LET old  == ClaimOf(o, claim.by, claim.kind, claim.ep)
        atts == AttOf(o, claim.ep, claim.kind)
        a0   == IF atts = {} THEN [ep |-> claim.ep, kind |-> claim.kind, voters |-> <<>>, obs |-> FALSE] ELSE CHOOSE x \in atts : TRUE
        a1   == IF "RepeatClaimRecounts" \notin OracleDev /\ claim.by \in RangeOf(a0.voters)
                THEN a0                                      \* the latest claim replaces the earlier one, the vote stays single
                ELSE [a0 EXCEPT !.voters = Append(@, claim.by)]
    IN [o EXCEPT !.claims = (@ \ old) \cup {claim}, !.att = (@ \ atts) \cup {a1}]

\* MsgPriceClaim.  a = [by, ep, pr]  (pr: name -> 4*value; a missing or non-positive required price is rejected)
\* Returns [out, o].
\* holder values are opaque to the module (it compares whole lists); small ones arrive as integers, 10^18-scale ones as
\* decimal strings: both are kept as their printed form so that lists of either kind can be compared
NormList(l) == [i \in DOMAIN l |-> <<l[i][1], ToString(l[i][2])>>]

PriceClaim(o, stk, denoms, a) ==
    IF ~(a.by \in DOMAIN stk /\ stk[a.by].x) THEN [out |-> "err", o |-> o]            \* not a validator account
    ELSE IF a.ep # o.ep THEN [out |-> "ok", o |-> o]                                 \* stale / future epoch: ignored
    ELSE IF \E r \in Required(denoms) : ~(r \in DOMAIN a.pr /\ a.pr[r] > 0) THEN [out |-> "err", o |-> o]
    ELSE [out |-> "ok", o |-> AddClaim(o, [by |-> a.by, kind |-> "price", ep |-> a.ep, pr |-> a.pr])]

HoldersClaim(o, stk, a) ==
    IF ~(a.by \in DOMAIN stk /\ stk[a.by].x) THEN [out |-> "err", o |-> o]
    ELSE IF Cardinality({a.list[i][1] : i \in DOMAIN a.list}) # Len(a.list) THEN [out |-> "err", o |-> o]   \* duplicated address
    ELSE IF a.ep # o.ep THEN [out |-> "ok", o |-> o]
    ELSE [out |-> "ok", o |-> AddClaim(o, [by |-> a.by, kind |-> "holders", ep |-> a.ep, list |-> NormList(a.list)])]

\* quorum of an attestation: the votes are summed in order until the threshold is met
Threshold(tot) == IF "OracleThresholdFloor" \in OracleDev THEN (66 * tot) \div 100 ELSE (66 * tot + 99) \div 100
VoteSum(stk, voters) == SeqSum([i \in DOMAIN voters |-> IF voters[i] \in DOMAIN stk THEN stk[voters[i]].p ELSE 0])
HasQuorum(stk, tot, att) == \E k \in 1..Len(att.voters) : VoteSum(stk, SubSeq(att.voters, 1, k)) >= Threshold(tot)

\* the weighted median the handler computes by repeating every value `weight` times:
\* pairs = set of <<voteIndex, value, weight>>;  element k (0-based) of the sorted multiset
ElemAt(pairs, k) ==
    LET vals == {p[2] : p \in pairs}
        below(v) == FoldSet(LAMBDA p, acc : acc + (IF p[2] <= v THEN p[3] ELSE 0), 0, pairs)
    IN Min({v \in vals : below(v) > k})
WMedian(pairs) ==
    LET n == FoldSet(LAMBDA p, acc : acc + p[3], 0, pairs)
    IN IF n % 2 = 0 THEN (ElemAt(pairs, n \div 2) + ElemAt(pairs, n \div 2 - 1)) \div 2 ELSE ElemAt(pairs, n \div 2)

NewPrices(o, stk, att) ==
    LET idx == DOMAIN att.voters
        claimOf(i) == CHOOSE c \in ClaimOf(o, att.voters[i], "price", att.ep) : TRUE
        names == UNION {DOMAIN claimOf(i).pr : i \in idx}
        pairs(name) == {<<i, claimOf(i).pr[name], NPow(stk, att.voters[i])>> : i \in {i \in idx : name \in DOMAIN claimOf(i).pr /\ NPow(stk, att.voters[i]) > 0}}
    IN [name \in {nm \in names : pairs(nm) # {}} |-> WMedian(pairs(name))]

\* holders: adopt the list that more than 2/3 of the normalised power reported identically
SameList(l1, l2) == RangeOf(l1) = RangeOf(l2) /\ Len(l1) = Len(l2)
NewHolders(o, stk, att) ==
    LET idx == DOMAIN att.voters
        claimOf(i) == CHOOSE c \in ClaimOf(o, att.voters[i], "holders", att.ep) : TRUE
        weight(l) == FoldSet(LAMBDA i, acc : acc + (IF SameList(claimOf(i).list, l) THEN NPow(stk, att.voters[i]) ELSE 0), 0, idx)
        winners == {i \in idx : weight(claimOf(i).list) > 43690}
    IN IF winners = {} THEN o.hold ELSE claimOf(CHOOSE i \in winners : TRUE).list

\* ProcessCurrentEpoch (EndBlocker at heights divisible by 5)
ProcessEpoch(o, stk, tot) ==
    LET e   == o.ep
        pa  == AttOf(o, e, "price")
        ha  == AttOf(o, e, "holders")
        o1  == IF pa # {} /\ HasQuorum(stk, tot, CHOOSE x \in pa : TRUE)
               THEN [o EXCEPT !.pr = NewPrices(o, stk, CHOOSE x \in pa : TRUE)] ELSE o
        o2  == IF ha # {} /\ HasQuorum(stk, tot, CHOOSE x \in ha : TRUE)
               THEN [o1 EXCEPT !.hold = NewHolders(o, stk, CHOOSE x \in ha : TRUE)] ELSE o1
        gone(kind, atts) == IF atts = {} THEN {} ELSE {c \in o.claims : c.kind = kind /\ c.ep = e /\ c.by \in RangeOf((CHOOSE x \in atts : TRUE).voters)}
    IN [o2 EXCEPT !.ep = e + 1, !.att = @ \ (pa \cup ha), !.claims = @ \ (gone("price", pa) \cup gone("holders", ha))]

OracleEndBlock(o, stk, tot, h) == IF h % 5 = 0 THEN ProcessEpoch(o, stk, tot) ELSE o

\* ---------------------------------------------------------------- C18 predicates on one step  pre --a--> post
OFail(cond, name, detail) == IF cond THEN {<<name, detail>>} ELSE {}
Distinct(seq) == Cardinality(RangeOf(seq)) = Len(seq)
DistinctPower(stk, voters) == FoldSet(LAMBDA v, acc : acc + (IF v \in DOMAIN stk THEN stk[v].p ELSE 0), 0, RangeOf(voters))

\* pre/post: [or, stk, tot, h]; stk/tot of post are the powers the end blocker read
C18Checks(pre, a, post) ==
    LET changedP == pre["or"].pr # post["or"].pr
        changedH == pre["or"].hold # post["or"].hold
        boundary == a.k = "End" /\ pre.h % 5 = 0
        e  == pre["or"].ep
        pa == AttOf(pre["or"], e, "price")
        ha == AttOf(pre["or"], e, "holders")
    IN   OFail((changedP \/ changedH) /\ ~boundary, "C18:EpochOnly", "")
    \cup OFail(post["or"].ep # (IF boundary THEN e + 1 ELSE e), "C18:EpochCounter", "")
         \* a change needs a quorum of DISTINCT reporters of this epoch
    \cup OFail(changedP /\ (pa = {} \/ 100 * DistinctPower(post.stk, (CHOOSE x \in pa : TRUE).voters) < 66 * post.tot), "C18:DistinctQuorum", "price")
    \cup OFail(changedH /\ (ha = {} \/ 100 * DistinctPower(post.stk, (CHOOSE x \in ha : TRUE).voters) < 66 * post.tot), "C18:DistinctQuorum", "holders")
         \* each validator's latest report counts once: the stored prices are the weighted median over distinct voters
    \cup (IF boundary /\ pa # {} /\ changedP
          THEN LET att == CHOOSE x \in pa : TRUE
                   once == [att EXCEPT !.voters = SetToSeq(RangeOf(att.voters))]
               IN OFail(post["or"].pr # NewPrices(pre["or"], post.stk, once), "C18:Median", IF Distinct(att.voters) THEN "" ELSE "repeated-claim")
          ELSE {})
    \cup (IF boundary /\ ha # {} /\ changedH
          THEN LET att == CHOOSE x \in ha : TRUE
                   once == [att EXCEPT !.voters = SetToSeq(RangeOf(att.voters))]
               IN OFail(~SameList(post["or"].hold, NewHolders(pre["or"], post.stk, once)), "C18:HoldersTwoThirds", IF Distinct(att.voters) THEN "" ELSE "repeated-claim")
          ELSE {})
         \* with a distinct quorum present the epoch must not be skipped silently (prices)
    \cup OFail(boundary /\ pa # {} /\ ~changedP /\ Distinct((CHOOSE x \in pa : TRUE).voters)
               /\ 100 * DistinctPower(post.stk, (CHOOSE x \in pa : TRUE).voters) >= 66 * post.tot
               /\ post["or"].pr # NewPrices(pre["or"], post.stk, CHOOSE x \in pa : TRUE), "C18:QuorumIgnored", "price")

\* ---------------------------------------------------------------- the oracle service (oracle/cmd/mhub-oracle)
\* One pass of relayPricesAndHolders for validator v: nothing before the first epoch or when v's price claim is already
\* among the votes of the current epoch; otherwise a holders claim in every `period`-th epoch (balances below one whole
\* unit are left out, values are in 10^-18 units) followed by a price claim, both for the current epoch, carrying what
\* the external feed shows (served = [pr4, list] with list = <<<<holder, whole units>>, ..>>).
Units18(u) == ToString(u) \o "000000000000000000"
ServedHolders(list) == [i \in DOMAIN SelectSeq(list, LAMBDA p : p[2] >= 1) |-> LET p == SelectSeq(list, LAMBDA q : q[2] >= 1)[i] IN <<p[1], Units18(p[2])>>]
AlreadyVoted(oo, v) == \E a \in oo.att : a.ep = oo.ep /\ a.kind = "price" /\ v \in RangeOf(a.voters)
ServiceClaims(oo, v, served, period) ==
    IF oo.ep = 0 \/ AlreadyVoted(oo, v) THEN <<>>
    ELSE (IF oo.ep % period = 0 THEN <<[k |-> "Holders", by |-> v, ep |-> oo.ep, list |-> ServedHolders(served.list)]>> ELSE <<>>)
         \o <<[k |-> "Price", by |-> v, ep |-> oo.ep, pr4 |-> served.pr4]>>
=============================================================================
