SPECIFICATION Spec
CONSTANTS
  OracleDev = {}
CONSTRAINT Record
POSTCONDITION Report
CHECK_DEADLOCK FALSE
