SPECIFICATION Spec
CONSTANTS
  UseStaticCfg = TRUE
  StaticCfg <- DefaultCfg
  Dev = {"RefundTruncatedDust"}
  Family = "fees"
  MaxLen = 40
  Amts = {10, 101, 400}
  Fees = {0, 3, 20}
  Users = {"a1", "a2"}
  SendChains = {"ethereum"}
  Denoms = {"usd", "hub"}
  DepChains = {"minter", "ethereum"}
  DepDests = {"ethereum", "hub"}
  MaxSends = 8
  MaxDeposits = 5
  MaxBlocks = 30
  Orchs = {"o1", "o2", "o3"}
  Exts = {"e1", "e2", "e3"}
  KeyChains = {"ethereum", "minter"}
  KeyVariants = {"good", "wrongtx", "wrongkey", "stale", "wrongval"}
  DepAmts = {40, 400, 10000}
  DepFees = {0, 10, 70}
  WithKeysAndPrices = TRUE
  FeePaids = {0, 1, 3, 50}
  StakePowers = {1, 2, 3}
  WatchNames = {}
  KeepHist = TRUE
  TwoLevel = TRUE
  EmitScripts = TRUE
CONSTRAINT Emit
INVARIANT NoStepViolation
INVARIANT Solvency
CHECK_DEADLOCK FALSE
