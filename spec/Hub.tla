------------------------------- MODULE Hub -------------------------------
(***************************************************************************)
(* The Minter Hub bridge module (x/mhub2) as a deterministic step          *)
(* function over an abstract state.  One operator per critical section of  *)
(* the implementation:                                                     *)
(*   message handlers  Send Cancel ReqBatch Claim Confirm SetKeys          *)
(*   BeginBlocker      cleanupTimedOutBatchTxs createSignerSetTxs          *)
(*                     createBatchTxs pruneSignerSetTxs                    *)
(*   EndBlocker        eventVoteRecordTally (+ Handle of each event type)  *)
(*                     refundExpiredTxs                                    *)
(* The state record has the shape of the projection the harness computes   *)
(* from the real application (after FromJson in the trace modules), so the *)
(* same operators generate behaviours (MC_*.tla), predict the post-state   *)
(* of an observed step (trace validation) and serve in the property        *)
(* predicates.                                                             *)
(*                                                                         *)
(* Dev is the set of deviation switches: places where the code is (or was, *)
(* before a fix: commit) known to differ from the listed properties.  With *)
(* Dev = {} the operators describe the intended behaviour; with a switch   *)
(* on they follow the deviating code.                                      *)
(***************************************************************************)
EXTENDS Util

CONSTANT Dev,
         UseStaticCfg, StaticCfg   \* bounded models keep the (constant) configuration out of their states

Cfg(s) == IF UseStaticCfg THEN StaticCfg ELSE s.cfg

BatchCap == 100

\* ---------------------------------------------------------------- configuration
\* cfg.tokens : sequence of [id, denom, chain, ext, dec, rnum, rden, ord, pfx]
\*   ord = rank of the external id string in byte order, pfx = exts (same chain) that have it as a strict prefix
Tokens(cfg)   == RangeOf(cfg.tokens)

\* first match in list order, as the keeper's lookups do
FirstToken(cfg, P(_)) ==
    LET idx == {i \in DOMAIN cfg.tokens : P(cfg.tokens[i])}
    IN IF idx = {} THEN [id |-> 0] ELSE cfg.tokens[Min(idx)]

TokByDenom(cfg, chain, denom) == FirstToken(cfg, LAMBDA t : t.denom = denom /\ t.chain = chain)
TokByExt(cfg, chain, ext)     == FirstToken(cfg, LAMBDA t : t.ext = ext /\ t.chain = chain)
Found(t) == t.id # 0

IsChain(cfg, c) == c \in RangeOf(cfg.chains)
TokOrd(cfg, chain, ext) == LET t == TokByExt(cfg, chain, ext) IN IF Found(t) THEN t.ord ELSE 0

\* ---------------------------------------------------------------- bank
Credit(s, acct, denom, amt) ==
    IF acct \in DOMAIN s.bal
    THEN [s EXCEPT !.bal[acct][denom] = @ + amt, !.sup[denom] = @ + amt]
    ELSE [s EXCEPT !.sup[denom] = @ + amt]          \* untracked account: only the supply is visible
Debit(s, acct, denom, amt) ==
    [s EXCEPT !.bal[acct][denom] = @ - amt, !.sup[denom] = @ - amt]
BalOf(s, acct, denom) == IF acct \in DOMAIN s.bal THEN s.bal[acct][denom] ELSE 0

\* ---------------------------------------------------------------- holder discount (GetCommissionForHolder)
\* s.hold : function external address name -> whole HUB held (value div 10^18)
DiscountPct(s, addrs) ==
    LET m == Max({0} \cup {Get(s.hold, a, 0) : a \in addrs})
    IN  IF m >= 32 THEN 60 ELSE IF m >= 16 THEN 50 ELSE IF m >= 8 THEN 40
        ELSE IF m >= 4 THEN 30 ELSE IF m >= 2 THEN 20 ELSE IF m >= 1 THEN 10 ELSE 0
\* floor( rate * (100 - discount)% * base )
Commission(s, tok, addrs, base) ==
    (tok.rnum * (100 - DiscountPct(s, addrs)) * base) \div (tok.rden * 100)

\* ---------------------------------------------------------------- tx status / fee records
StatusOf(s, x) == IF x \in DOMAIN s.st THEN s.st[x][1] ELSE "NOT_FOUND"
SetStatus(s, x, status, out) ==
    [s EXCEPT !.st = Put(@, x, <<IF StatusOf(s, x) = "REFUNDED" THEN "REFUNDED" ELSE status, out>>)]

\* ---------------------------------------------------------------- pool
\* createSendToExternal: debits the sender, burns, stores a pool entry with amounts in external units.
\* Returns [ok, s, id].
CreateSend(s, chain, sender, dest, denom, amt, fee, comm, x, rchain, raddr) ==
    LET tok   == TokByDenom(Cfg(s), chain, denom)
        total == amt + fee + comm
    IN  IF ~Found(tok) \/ ~IsChain(Cfg(s), chain) THEN [ok |-> FALSE, s |-> s, id |-> 0]
        ELSE IF total <= 0 THEN [ok |-> FALSE, s |-> s, id |-> 0]        \* the bank rejects a zero coin
        ELSE IF BalOf(s, sender, denom) < total THEN [ok |-> FALSE, s |-> s, id |-> 0]
        ELSE LET id == s.ch[chain].txid + 1
                 tr == [id |-> id, s |-> sender, d |-> dest, tok |-> tok.ext,
                        a |-> ConvDec(18, tok.dec, amt), f |-> ConvDec(18, tok.dec, fee), c |-> ConvDec(18, tok.dec, comm),
                        x |-> x, ct |-> s.t, ra |-> raddr, rc |-> rchain]
                 s1 == Debit(s, sender, denom, total)
             IN [ok |-> TRUE, id |-> id,
                 s  |-> [s1 EXCEPT !.ch[chain].txid = id, !.ch[chain].pool = @ \cup {tr}]]

\* total ordering of pool keys (chain | token ext | fee (32 bytes BE) | id): a > b
PoolKeyGreater(cfg, chain, a, b) ==
    LET oa == TokOrd(cfg, chain, a.tok)
        ob == TokOrd(cfg, chain, b.tok)
    IN  \/ oa > ob
        \/ oa = ob /\ a.f > b.f
        \/ oa = ob /\ a.f = b.f /\ a.id > b.id
\* the pool of a chain in reverse key order (what the keeper's reverse iterators visit)
PoolDesc(s, chain) == SortBy(s.ch[chain].pool, LAMBDA a, b : PoolKeyGreater(Cfg(s), chain, a, b))

\* entries visited by the by-token prefix scan.  With the deviation the scan also matches every token
\* whose external id has `ext` as a prefix.
ScanMatches(cfg, chain, ext, tr) ==
    \/ tr.tok = ext
    \/ /\ "TokenPrefixScan" \in Dev
       /\ LET t == TokByExt(cfg, chain, ext) IN Found(t) /\ tr.tok \in t.pfx

\* cancelSendToExternal.  `who` is the claimed sender.  Returns [ok, s]; when ok = FALSE the message
\* handler discards s, the EndBlocker keeps it (it ignores the error and has no cache context).
CancelSend(s, chain, id, who) ==
    LET hits == {tr \in s.ch[chain].pool : tr.id = id}
    IN  IF hits = {} THEN [ok |-> FALSE, s |-> s]
        ELSE LET tr == CHOOSE tr \in hits : TRUE IN
             IF who # tr.s THEN [ok |-> FALSE, s |-> s]
             \* a cold storage transfer (governance; sender and refund address = the transit account): its vouchers were minted
             \* for the transfer alone, nothing is given back (before 9466331 the refund left unbacked vouchers on the transit account)
             ELSE IF tr.s = "tmp" /\ tr.rc = "hub" /\ tr.ra = "tmp" /\ "ColdRefundToTransit" \notin Dev
             THEN [ok |-> TRUE, s |-> [SetStatus(s, tr.x, "REFUNDED", "") EXCEPT !.ch[chain].pool = @ \ {tr}]]
             ELSE LET tok    == TokByExt(Cfg(s), chain, tr.tok)
                      denom  == tok.denom
                      refund == ConvDec(tok.dec, 18, tr.a + tr.f + tr.c)
                      s1     == Credit(s, "mod", denom, refund)
                      r2 == IF tr.rc = "" THEN [ok |-> TRUE, s |-> s1]
                            ELSE IF tr.rc = "hub"
                                 THEN [ok |-> TRUE, s |-> Credit(Debit(s1, "mod", denom, refund), who, denom, refund)]
                                 ELSE LET s2 == Credit(Debit(s1, "mod", denom, refund), "tmp", denom, refund)
                                          cr == CreateSend(s2, tr.rc, "tmp", tr.ra, denom, refund, 0, 0, "#", "", "")
                                      IN [ok |-> cr.ok, s |-> cr.s]
                  IN IF ~r2.ok THEN [ok |-> FALSE, s |-> r2.s]
                     ELSE [ok |-> TRUE,
                           s  |-> LET s3 == SetStatus(r2.s, tr.x, "REFUNDED", "")
                                  IN [s3 EXCEPT !.ch[chain].pool = @ \ {tr}]]

\* ---------------------------------------------------------------- batches
AvgExtMs(cfg, chain) ==
    CASE chain = "ethereum" -> cfg.avg_eth_ms [] chain = "bsc" -> cfg.avg_bsc_ms
      [] chain = "minter" -> 5000 [] OTHER -> cfg.avg_block_ms
\* getBatchTimeoutHeight
BatchTimeout(s, chain) ==
    LET c == s.ch[chain] IN
    IF c.lohc = 0 \/ c.lohe = 0 THEN 0
    ELSE ((s.h - c.lohc) * Cfg(s).avg_block_ms) \div AvgExtMs(Cfg(s), chain) + c.lohe
         + Cfg(s).target_ms \div AvgExtMs(Cfg(s), chain)

\* BuildBatchTx.  Returns [made, s]; made = FALSE when nothing was stored.
BuildBatch(s, chain, ext, cap) ==
    LET cand == SelectSeq(PoolDesc(s, chain), LAMBDA tr : ScanMatches(Cfg(s), chain, ext, tr))
        sel  == TakeN(cand, cap)
    IN  IF sel = <<>> /\ "EmptyBatch" \notin Dev THEN [made |-> FALSE, s |-> s]
        ELSE
        LET s1 == FoldLeft(LAMBDA acc, tr : SetStatus(acc, tr.x, "BATCH_CREATED", ""), s, sel)
            n  == s.ch[chain].bn + 1
            q  == s.ch[chain].seq + 1
            b  == [n |-> n, tok |-> ext, txs |-> sel, to |-> BatchTimeout(s, chain), ht |-> s.h, seq |-> q]
        IN [made |-> TRUE,
            s |-> [s1 EXCEPT !.ch[chain].pool = @ \ RangeOf(sel), !.ch[chain].bn = n, !.ch[chain].seq = q,
                             !.ch[chain].bat = @ \cup {b}]]

\* CancelBatchTx: release the transfers back into the pool and delete the batch
CancelBatch(s, chain, b) ==
    [s EXCEPT !.ch[chain].pool = @ \cup RangeOf(b.txs), !.ch[chain].bat = @ \ {b}]

\* ---------------------------------------------------------------- signer sets
\* 16-bit limb arithmetic for the 2^32-1 normalisation: numbers are <<hi, lo>> = hi * 65536 + lo
LAdd(a, b) == LET lo == a[2] + b[2] IN <<a[1] + b[1] + lo \div 65536, lo % 65536>>
LLess(a, b) == a[1] < b[1] \/ (a[1] = b[1] /\ a[2] < b[2])
LSub(a, b) == \* a - b for a >= b
    IF a[2] >= b[2] THEN <<a[1] - b[1], a[2] - b[2]>> ELSE <<a[1] - b[1] - 1, a[2] + 65536 - b[2]>>
LAbsDiff(a, b) == IF LLess(a, b) THEN LSub(b, a) ELSE LSub(a, b)
\* floor(p * (2^32 - 1) / tot) for small p, tot:  p*(2^32-1) = (p*65536 - 1) * 65536 + (65536 - p), long division
NormPower(p, tot) ==
    IF tot = 0 \/ p = 0 THEN <<0, 0>>
    ELSE LET hi == p * 65536 - 1
             lo == 65536 - p
             q1 == hi \div tot
             r1 == hi % tot
             q0 == (r1 * 65536 + lo) \div tot
         IN <<q1 + q0 \div 65536, q0 % 65536>>

BondedWithKey(s, chain) == {v \in DOMAIN s.stk : s.stk[v].b /\ Has(s.ch[chain].ve, v)}
PowerSum(s, vals) == FoldSet(LAMBDA v, acc : acc + s.stk[v].p, 0, vals)

\* CurrentSignerSet: bonded validators with a key on the chain, normalised to 2^32-1 over their own total
CurrentSigners(s, chain) ==
    LET vals == BondedWithKey(s, chain)
    IN  {<<s.ch[chain].ve[v], NormPower(s.stk[v].p, PowerSum(s, vals))>> : v \in vals}

\* NewSignerSetTx sorts by power desc, then by the hex address string bytes asc; cfg.extord ranks the strings
ExtOrd(cfg, e) == Get(cfg.extord, e, 0)
MemberBefore(cfg, a, b) ==
    \/ LLess(b[2], a[2])
    \/ a[2] = b[2] /\ ExtOrd(cfg, a[1]) < ExtOrd(cfg, b[1])
SortedMembers(cfg, ms) == SortBy(ms, LAMBDA a, b : MemberBefore(cfg, a, b))

\* PowerDiff(current, latest) > 0.05, i.e. sum |delta| > 0.05 * (2^32-1) = 214748364.75 = <<3276, 52428.75>>
PowerDelta(cur, lat) ==
    LET names == {m[1] : m \in cur} \cup {m[1] : m \in lat}
        pw(S, e) == IF \E m \in S : m[1] = e THEN (CHOOSE m \in S : m[1] = e)[2] ELSE <<0, 0>>
    IN FoldSet(LAMBDA e, acc : LAdd(acc, LAbsDiff(pw(cur, e), pw(lat, e))), <<0, 0>>, names)
PowerDiffExceeds(cur, lat) == LLess(<<3276, 52428>>, PowerDelta(cur, lat))

CreateSignerSet(s, chain) ==
    LET n == s.ch[chain].ssn + 1
        q == s.ch[chain].seq + 1
        ss == [n |-> n, ht |-> s.h, seq |-> q, m |-> SortedMembers(Cfg(s), CurrentSigners(s, chain))]
    IN [s EXCEPT !.ch[chain].ssn = n, !.ch[chain].seq = q, !.ch[chain].ss = @ \cup {ss}]

MaybeCreateSignerSet(s, chain) ==
    LET latest == {x \in s.ch[chain].ss : x.n = s.ch[chain].ssn}
    IN  IF latest = {} THEN CreateSignerSet(s, chain)
        ELSE LET l == CHOOSE x \in latest : TRUE
             IN IF PowerDiffExceeds(CurrentSigners(s, chain), RangeOf(l.m)) THEN CreateSignerSet(s, chain) ELSE s

PruneSignerSets(s, chain) ==
    LET c == s.ch[chain] IN
    IF c.loss = <<>> \/ s.h < Cfg(s).ss_window THEN s
    ELSE [s EXCEPT !.ch[chain].ss = {x \in @ : ~(x.n < c.loss.n /\ x.ht < s.h - Cfg(s).ss_window)}]

\* ---------------------------------------------------------------- BeginBlocker
CleanupTimedOutBatches(s, chain) ==
    LET dead == {b \in s.ch[chain].bat : b.to < s.ch[chain].lohe}
    IN FoldSet(LAMBDA b, acc : CancelBatch(acc, chain, b), s, dead)

PoolTokensAsc(s, chain) ==
    SortBy({tr.tok : tr \in s.ch[chain].pool}, LAMBDA a, b : TokOrd(Cfg(s), chain, a) < TokOrd(Cfg(s), chain, b))

AutoBatches(s, chain) ==
    IF s.h % 2 # 0 THEN s
    ELSE FoldLeft(LAMBDA acc, ext : BuildBatch(acc, chain, ext, BatchCap).s, s, PoolTokensAsc(s, chain))

BeginChain(s, chain) ==
    IF chain = "hub" THEN s
    ELSE LET s1 == IF chain # "minter" THEN CleanupTimedOutBatches(s, chain) ELSE s
             s2 == MaybeCreateSignerSet(s1, chain)
             s3 == AutoBatches(s2, chain)
         IN PruneSignerSets(s3, chain)

BeginBlock(s, dt) ==
    LET s0 == [s EXCEPT !.h = @ + 1, !.t = @ + dt, !.inb = TRUE]
    IN FoldLeft(LAMBDA acc, c : BeginChain(acc, c), s0, Cfg(s).chains)

\* ---------------------------------------------------------------- event handling (ExternalEventProcessor.Handle)
\* every handler returns [ok, s]; on ok = FALSE the caller discards s (the cache context is not written)
HandleToHub(s, chain, tokExt, amt, rcv, txh) ==
    LET tok == TokByExt(Cfg(s), chain, tokExt) IN
    IF ~Found(tok) THEN [ok |-> FALSE, s |-> s]
    ELSE LET conv == ConvDec(tok.dec, 18, amt)
             s1   == Credit(s, rcv, tok.denom, conv)
         IN [ok |-> TRUE, s |-> SetStatus(s1, txh, "DEPOSIT_RECEIVED", "")]

MintedForDeposit(ev) == IF "MintAmountPlusFee" \in Dev THEN ev.amt + ev.fee ELSE ev.amt

HandleDeposit(s, chain, ev) ==
    IF ~IsChain(Cfg(s), ev.rch) THEN [ok |-> FALSE, s |-> s]
    ELSE IF ev.rch = "hub" THEN HandleToHub(s, chain, ev.tok, MintedForDeposit(ev), ev.rcv, ev.txh)
    ELSE LET r1 == HandleToHub(s, chain, ev.tok, MintedForDeposit(ev), "tmp", ev.txh) IN
         IF ~r1.ok THEN r1
         ELSE LET src == TokByExt(Cfg(s), chain, ev.tok)
                  dst == TokByDenom(Cfg(s), ev.rch, src.denom)
              IN IF ~Found(dst) THEN [ok |-> FALSE, s |-> s]
                 ELSE LET camt == ConvDec(src.dec, 18, ev.amt)
                          cfee == ConvDec(src.dec, 18, ev.fee)
                          comm == Commission(s, dst, {ev.snd, ev.rcv}, camt)
                          left == camt - comm
                      IN IF left < cfee THEN [ok |-> FALSE, s |-> s]
                         ELSE LET cr == CreateSend(r1.s, ev.rch, "tmp", ev.rcv, src.denom, left - cfee, cfee, comm, ev.txh, chain, ev.snd)
                              IN [ok |-> cr.ok, s |-> cr.s]

\* --- validator commission shares.  The code splits `total` by the 2^32-normalised powers:
\*     share_i = floor(total * n_i / N),  n_i = floor(p_i * M / P),  N = sum n_j,  M = 2^32 - 1, P = sum p_j.
\* With q = floor(total * p_i / P) and rho = (total * p_i) mod P this equals q when rho > 0 or
\* q * R >= total * r_i  (r_j = (p_j * M) mod P, R = sum r_j), else q - 1   (all numbers small).
MmodP(P) == ((((65536 % P) * (65536 % P)) % P) + P - 1) % P
NormRem(p, P) == (p * MmodP(P)) % P
CommissionShare(s, vals, v, total) ==
    LET P   == PowerSum(s, vals)
        pi  == s.stk[v].p
        q   == (total * pi) \div P
        rho == (total * pi) % P
        R   == FoldSet(LAMBDA w, acc : acc + NormRem(s.stk[w].p, P), 0, vals)
    IN IF P = 0 THEN 0
       ELSE IF rho > 0 \/ q * R >= total * NormRem(pi, P) THEN q ELSE q - 1

\* the Minter signer set in staking order (power desc, then cfg.valrank asc)
MinterPayees(s) ==
    SortBy(BondedWithKey(s, "minter"),
           LAMBDA a, b : s.stk[a].p > s.stk[b].p \/ (s.stk[a].p = s.stk[b].p /\ Cfg(s).valrank[a] < Cfg(s).valrank[b]))

SumOver(seq, F(_)) == FoldLeft(LAMBDA acc, x : acc + F(x), 0, seq)

\* s.pr : function price name -> 2 * price (integral in the bounded models)
\* reimbursement = floor(feePaid * price(base) / price(denom) * 150 / 100)
Reimbursement(s, base, denom, feePaid) == (3 * feePaid * s.pr[base]) \div (2 * s.pr[denom])

PayFees(s0, chain, ev, b, tok, totF) ==
    LET base == CASE chain = "ethereum" -> "eth" [] chain = "bsc" -> "bnb" [] OTHER -> ""
    IN  IF totF <= 0 \/ base = "" THEN [ok |-> TRUE, s |-> s0, panic |-> FALSE]
        ELSE IF ~Has(s0.pr, base) \/ ~Has(s0.pr, tok.denom)
        THEN IF "PriceMissingPanics" \in Dev
             THEN [ok |-> FALSE, s |-> s0, panic |-> TRUE]         \* MustGetTokenPrice panicked
             ELSE [ok |-> TRUE, s |-> s0, panic |-> FALSE]         \* no prices: the fees stay undistributed
        ELSE
        LET want == Reimbursement(s0, base, tok.denom, ev.fp)
            fee  == IF want >= totF THEN totF ELSE want
        IN IF fee <= 0 THEN [ok |-> TRUE, s |-> s0, panic |-> FALSE]
           ELSE
           LET m1   == Credit(s0, "tmp", tok.denom, fee)
               c1   == CreateSend(m1, "minter", "tmp", ev.fpr, tok.denom, fee, 0, 0, "#fee", "", "")
               left == totF - fee
           IN IF ~c1.ok THEN [ok |-> FALSE, s |-> s0, panic |-> TRUE]
              ELSE IF left <= 0 THEN [ok |-> TRUE, s |-> c1.s, panic |-> FALSE]
              ELSE
              LET m2    == Credit(c1.s, "tmp", tok.denom, left)
                  avg   == fee \div Len(b.txs)
                  cf(tr) == ConvDec(tok.dec, 18, tr.f)
                  good  == SumOver(b.txs, LAMBDA tr : IF cf(tr) >= avg THEN cf(tr) ELSE 0)
                  step(acc, tr) ==
                      IF cf(tr) < avg \/ tr.rc # "minter" THEN acc
                      ELSE LET back == (left * cf(tr)) \div good
                           IN IF back <= 0 THEN acc
                              ELSE LET c2 == CreateSend(acc, "minter", "tmp", tr.ra, tok.denom, back, 0, 0, "#fee", "", "")
                                       kept == IF "FeeRecordUnitMix" \in Dev THEN acc.fr[tr.x][2] - back
                                               ELSE acc.fr[tr.x][2] - ConvDec(18, tok.dec, back)
                                   IN [c2.s EXCEPT !.fr = Put(@, tr.x, <<acc.fr[tr.x][1], kept>>)]
              IN [ok |-> TRUE, s |-> FoldLeft(step, m2, b.txs), panic |-> FALSE]

\* batchTxExecuted
HandleExec(s, chain, ev) ==
    LET hits == {b \in s.ch[chain].bat : b.tok = ev.tok /\ b.n = ev.bn} IN
    IF hits = {} THEN [ok |-> TRUE, s |-> s, panic |-> FALSE]
    ELSE
    LET b     == CHOOSE b \in hits : TRUE
        older == IF chain = "minter" THEN {} ELSE {o \in s.ch[chain].bat : o.n < b.n /\ o.tok = b.tok}
        s1    == FoldSet(LAMBDA o, acc : CancelBatch(acc, chain, o), s, older)
        s2    == [s1 EXCEPT !.ch[chain].bat = @ \ {b}]
        tok   == TokByExt(Cfg(s), chain, b.tok)
    IN  IF ~Found(tok) THEN [ok |-> FALSE, s |-> s, panic |-> TRUE]
        ELSE
        LET s3    == FoldLeft(LAMBDA acc, tr :
                         [SetStatus(acc, tr.x, "BATCH_EXECUTED", ev.txh) EXCEPT !.fr = Put(@, tr.x, <<tr.c, tr.f>>)], s2, b.txs)
            totC  == ConvDec(tok.dec, 18, SumOver(b.txs, LAMBDA tr : tr.c))
            totF  == ConvDec(tok.dec, 18, SumOver(b.txs, LAMBDA tr : tr.f))
            payees == MinterPayees(s3)
            pset   == RangeOf(payees)
            mtok   == TokByDenom(Cfg(s), "minter", tok.denom)
        IN IF totC > 0 /\ payees # <<>> /\ ~Found(mtok) THEN [ok |-> FALSE, s |-> s, panic |-> TRUE]
           ELSE
           \* every payee gets a transfer; a share of zero makes createSendToExternal fail and the code panics
           LET zeroShare == totC > 0 /\ \E v \in pset : CommissionShare(s3, pset, v, totC) <= 0
               s4 == IF totC <= 0 THEN s3
                     ELSE FoldLeft(LAMBDA acc, v :
                              IF CommissionShare(s3, pset, v, totC) <= 0 THEN acc      \* a zero share is skipped
                              ELSE CreateSend(acc, "minter", "tmp", s3.ch["minter"].ve[v], tok.denom,
                                         CommissionShare(s3, pset, v, totC), 0, 0, "#commission", "", "").s,
                              Credit(s3, "tmp", tok.denom, totC), payees)
           IN IF zeroShare /\ "ZeroSharePanics" \in Dev THEN [ok |-> FALSE, s |-> s, panic |-> TRUE]
              ELSE PayFees(s4, chain, ev, b, tok, totF)

HandleSSExec(s, chain, ev) ==
    [ok |-> TRUE, s |-> [s EXCEPT !.ch[chain].loss = [n |-> ev.ssn, m |-> ev.m]], panic |-> FALSE]

WithPanic(r) == [ok |-> r.ok, s |-> r.s, panic |-> FALSE]

Handle(s, chain, ev) ==
    CASE ev.t = "Deposit" -> WithPanic(HandleDeposit(s, chain, ev))
      [] ev.t = "ToHub"   -> WithPanic(HandleToHub(s, chain, ev.tok, ev.amt, ev.rcv, ev.txh))
      [] ev.t = "Exec"    -> HandleExec(s, chain, ev)
      [] ev.t = "SSExec"  -> HandleSSExec(s, chain, ev)
      [] OTHER            -> [ok |-> TRUE, s |-> s, panic |-> FALSE]

\* ---------------------------------------------------------------- claims (votes) and the tally
\* The claim identifier: the fields of an event that enter its hash.  Ideal = every effect-relevant field.
ClaimId(ev) ==
    CASE ev.t = "Deposit" ->
            IF "HashOmitsFields" \in Dev
            THEN <<"Deposit", ev.n, ev.tok, ev.amt, ev.snd, ev.rcv, ev.rch, ev.eh>>
            ELSE <<"Deposit", ev.n, ev.tok, ev.amt, ev.fee, ev.snd, ev.rcv, ev.rch, ev.eh, ev.txh>>
      [] ev.t = "ToHub" ->
            IF "HashOmitsFields" \in Dev
            THEN <<"ToHub", ev.n, ev.tok, ev.amt, ev.snd, ev.rcv, ev.eh>>
            ELSE <<"ToHub", ev.n, ev.tok, ev.amt, ev.snd, ev.rcv, ev.eh, ev.txh>>
      [] ev.t = "Exec" ->
            IF "HashOmitsFields" \in Dev
            THEN <<"Exec", ev.n, ev.tok, ev.bn, ev.eh>>
            ELSE <<"Exec", ev.n, ev.tok, ev.bn, ev.eh, ev.txh, ev.fp, ev.fpr>>
      [] ev.t = "SSExec" ->
            IF "HashOmitsFields" \in Dev
            THEN <<"SSExec", ev.n, ev.ssn, ev.eh, ev.m>>
            ELSE <<"SSExec", ev.n, ev.ssn, ev.eh, ev.m, ev.txh>>
      [] OTHER -> <<ev.t, ev.n>>

\* getSignerValidator: the validator an account acts for on a chain ("" if none or not bonded)
SignerVal(s, chain, acct) ==
    LET v == IF Has(s.ch[chain].ov, acct) THEN s.ch[chain].ov[acct] ELSE acct
    IN IF v \in DOMAIN s.stk /\ s.stk[v].x /\ s.stk[v].b THEN v ELSE ""

\* getLastEventNonceByValidator
LastNonceOf(s, chain, v) ==
    LET c == s.ch[chain] IN
    IF Has(c.lnv, v) THEN c.lnv[v]
    ELSE IF c.votes = {} THEN c.lon
    ELSE LET low == Min({c.lon} \cup {r.n : r \in {r \in c.votes : r.acc}})
         IN IF low > 0 THEN low - 1 ELSE 0

\* vote-record order inside a nonce (store key order = hash bytes); Cfg(s) carries no hash, so the trace
\* modules pass the observed order through `rank`; the generator uses insertion order.
RecordVote(s, chain, v, ev) ==
    LET c    == s.ch[chain]
        last == LastNonceOf(s, chain, v)
        cid  == ClaimId(ev)
        hits == {r \in c.votes : r.n = ev.n /\ r.cid = cid}
    IN IF ev.n # last + 1 /\ last # 0 THEN [ok |-> FALSE, s |-> s]
       ELSE LET r0 == IF hits = {} THEN [n |-> ev.n, cid |-> cid, ev |-> ev, voters |-> <<>>, acc |-> FALSE, ord |-> Cardinality(c.votes) + 1]
                      ELSE CHOOSE r \in hits : TRUE
                r1 == [r0 EXCEPT !.voters = Append(@, v)]
            IN [ok |-> TRUE,
                s  |-> [s EXCEPT !.ch[chain].votes = (@ \ hits) \cup {r1}, !.ch[chain].lnv = Put(@, v, ev.n)]]

\* EventVoteRecordPowerThreshold and the comparison in TryEventVoteRecord
QuorumReached(s, power) ==
    IF "ThresholdFloor" \in Dev THEN power >= (66 * s.tot) \div 100
    ELSE 100 * power >= 66 * s.tot

PowerOf(s, v) == IF v \in DOMAIN s.stk THEN s.stk[v].p ELSE 0

\* does the record pass, counting votes in order (the loop breaks at the first prefix that reaches quorum)
RecordPasses(s, r) ==
    \E k \in 1..Len(r.voters) : QuorumReached(s, SeqSum([i \in 1..k |-> PowerOf(s, r.voters[i])]))

\* TryEventVoteRecord.  Returns [s, panic].
TryRecord(s, chain, r) ==
    IF ~RecordPasses(s, r) THEN [s |-> s, panic |-> FALSE]
    ELSE LET r1 == [r EXCEPT !.acc = TRUE]
             s1 == [s EXCEPT !.ch[chain].lon = r.n, !.ch[chain].lohc = s.h, !.ch[chain].lohe = r.ev.eh,
                             !.ch[chain].votes = (@ \ {r}) \cup {r1}]
             hr == Handle(s1, chain, r.ev)
         \* a panicking handler fails that event alone (the handler call recovers); before 02b806a it halted the chain
         IN IF hr.panic /\ "HandlerPanicsHalt" \in Dev THEN [s |-> s1, panic |-> TRUE]
            ELSE [s |-> IF hr.ok /\ ~hr.panic THEN hr.s ELSE s1, panic |-> FALSE]

\* eventVoteRecordTally: nonces ascending; inside a nonce in store order (r.ord)
Tally(s, chain) ==
    LET recs == SortBy(s.ch[chain].votes, LAMBDA a, b : a.n < b.n \/ (a.n = b.n /\ a.ord < b.ord))
        step(acc, r) ==
            IF acc.panic THEN acc
            ELSE LET cur == {x \in acc.s.ch[chain].votes : x.n = r.n /\ x.cid = r.cid}
                 IN IF r.n # acc.s.ch[chain].lon + 1 THEN acc
                    ELSE IF r.acc THEN [s |-> acc.s, panic |-> TRUE]
                    ELSE TryRecord(acc.s, chain, CHOOSE x \in cur : TRUE)
    IN FoldLeft(step, [s |-> s, panic |-> FALSE], recs)

\* refundExpiredTxs: every pool entry older than the timeout, visited in reverse key order
RefundExpired(s, chain) ==
    LET expired == SelectSeq(PoolDesc(s, chain), LAMBDA tr : tr.ct + Cfg(s).out_timeout < s.t)
    IN FoldLeft(LAMBDA acc, tr : CancelSend(acc, chain, tr.id, tr.s).s, s, expired)

EndChain(acc, chain) ==
    IF acc.panic THEN acc
    ELSE LET t == Tally(acc.s, chain)
         IN IF t.panic THEN t ELSE [s |-> RefundExpired(t.s, chain), panic |-> FALSE]

\* EndBlocker of the bridge module (staking has already updated s.stk / s.tot: environment input)
EndBlockHub(s) ==
    LET r == FoldLeft(EndChain, [s |-> s, panic |-> FALSE], Cfg(s).chains)
    IN [s |-> [r.s EXCEPT !.inb = FALSE], panic |-> r.panic]

\* ---------------------------------------------------------------- message handlers
\* each returns [out, s] with out in {"ok", "err"}; on "err" the state is unchanged (baseapp discards the
\* message's cache context), `id` is the returned transfer id where applicable
Ok(s)  == [out |-> "ok", s |-> s, id |-> 0]
Err(s) == [out |-> "err", s |-> s, id |-> 0]

\* the name under which the harness records the hash of an accepted send transaction: chain initial + transfer id
SendHash(s, chain) == "s" \o (CASE chain = "ethereum" -> "e" [] chain = "minter" -> "m" [] chain = "bsc" -> "b" [] OTHER -> "x")
                          \o ToString(s.ch[chain].txid + 1)

\* a.dest valid: model names are valid addresses; "zero" is the zero address, "bad" a malformed one
MsgSend(s, a) ==
    LET tok == TokByDenom(Cfg(s), a.chain, a.denom) IN
    IF a.amt <= 0 \/ a.fee < 0 \/ a.dest \in {"zero", "bad"} THEN Err(s)
    ELSE IF ~IsChain(Cfg(s), a.chain) \/ ~Found(tok) THEN Err(s)
    ELSE LET comm == Commission(s, tok, {a.from, a.dest}, a.amt + a.fee)
         IN IF comm > a.amt THEN Err(s)                     \* Coin.SubAmount panics, recovered by baseapp
            ELSE LET cr == CreateSend(s, a.chain, a.from, a.dest, a.denom, a.amt - comm, a.fee, comm,
                                      SendHash(s, a.chain), "hub", a.from)
                 IN IF cr.ok THEN [out |-> "ok", s |-> cr.s, id |-> cr.id] ELSE Err(s)
\* (a send inside a multi-message transaction carries the name of that transaction's hash in a.x)
MsgSendX(s, a) ==
    LET tok == TokByDenom(Cfg(s), a.chain, a.denom) IN
    IF a.amt <= 0 \/ a.fee < 0 \/ a.dest \in {"zero", "bad"} THEN Err(s)
    ELSE IF ~IsChain(Cfg(s), a.chain) \/ ~Found(tok) THEN Err(s)
    ELSE LET comm == Commission(s, tok, {a.from, a.dest}, a.amt + a.fee)
         IN IF comm > a.amt THEN Err(s)
            ELSE LET cr == CreateSend(s, a.chain, a.from, a.dest, a.denom, a.amt - comm, a.fee, comm, a.x, "hub", a.from)
                 IN IF cr.ok THEN [out |-> "ok", s |-> cr.s, id |-> cr.id] ELSE Err(s)

MsgCancel(s, a) ==
    IF a.id = 0 \/ ~IsChain(Cfg(s), a.chain) THEN Err(s)
    ELSE LET r == CancelSend(s, a.chain, a.id, a.from) IN IF r.ok THEN Ok(r.s) ELSE Err(s)

MsgReqBatch(s, a) ==
    LET tok == TokByDenom(Cfg(s), a.chain, a.denom) IN
    IF ~IsChain(Cfg(s), a.chain) \/ ~Found(tok) THEN Err(s)
    ELSE LET r == BuildBatch(s, a.chain, tok.ext, BatchCap)
         IN IF r.made THEN Ok(r.s) ELSE Ok(s)       \* nothing to batch: accepted, nothing created

\* stateless validation of an event (ExternalEvent.Validate) on the modelled fields
EventValid(cfg, chain, ev) ==
    /\ ev.n > 0
    /\ ev.t \in {"Deposit", "ToHub"} => ev.amt >= 0
    /\ (ev.t = "Deposit" /\ "NegativeFeeUnchecked" \notin Dev) => ev.fee >= 0

MsgClaim(s, a) ==
    IF ~EventValid(Cfg(s), a.chain, a.ev) \/ ~IsChain(Cfg(s), a.chain) THEN Err(s)
    ELSE LET v == SignerVal(s, a.chain, a.by) IN
         IF v = "" THEN Err(s)
         ELSE LET r == RecordVote(s, a.chain, v, a.ev) IN IF r.ok THEN Ok(r.s) ELSE Err(s)

\* outgoing tx lookup for confirmations: a.tx = [t, n, tok]
TxExists(s, chain, tx) ==
    CASE tx.t = "ss"  -> \E x \in s.ch[chain].ss : x.n = tx.n
      [] tx.t = "bat" -> \E b \in s.ch[chain].bat : b.n = tx.n /\ b.tok = tx.tok
      [] OTHER        -> FALSE
SigsOf(s, chain, tx) ==
    LET hits == {g \in s.ch[chain].sigs : g.tx = tx} IN IF hits = {} THEN <<>> ELSE (CHOOSE g \in hits : TRUE).by

MsgConfirm(s, a) ==
    IF ~IsChain(Cfg(s), a.chain) \/ a.tx.n = 0 THEN Err(s)
    ELSE LET v == SignerVal(s, a.chain, a.by) IN
         IF v = "" \/ ~TxExists(s, a.chain, a.tx) THEN Err(s)
         ELSE IF ~Has(s.ch[a.chain].ve, v) /\ "ConfirmZeroAddress" \notin Dev THEN Err(s)   \* no key registered
         ELSE IF Get(s.ch[a.chain].ve, v, "zero") # a.ext THEN Err(s)
         ELSE IF Has(SigsOf(s, a.chain, a.tx), v) THEN Err(s)
         ELSE LET old == {g \in s.ch[a.chain].sigs : g.tx = a.tx}
                  new == [tx |-> a.tx, by |-> Put(SigsOf(s, a.chain, a.tx), v, a.key)]
              IN Ok([s EXCEPT !.ch[a.chain].sigs = (@ \ old) \cup {new}])

\* SetDelegateKeys.  a = [txby, val, orch, ext, chain, sigkey, sigseq, sigval]
MsgSetKeys(s, a) ==
    LET c == s.ch[a.chain] IN
    IF a.txby # a.val THEN Err(s)                                    \* the ante handler: tx signed by the validator account
    ELSE IF ~(a.val \in DOMAIN s.stk /\ s.stk[a.val].x) THEN Err(s)      \* validator must exist
    ELSE IF \E v \in DOMAIN c.ve : c.ve[v] = a.ext THEN Err(s)        \* external address in use
    ELSE IF \E e \in DOMAIN c.eo : c.eo[e] = a.orch THEN Err(s)       \* orchestrator in use
    ELSE IF a.sigkey # a.ext \/ a.sigseq # 0 \/ a.sigval # a.val THEN Err(s)
    ELSE Ok([s EXCEPT !.ch[a.chain].ov = Put(@, a.orch, a.val),
                      !.ch[a.chain].ve = Put(@, a.val, a.ext),
                      !.ch[a.chain].eo = Put(@, a.ext, a.orch)])

\* ---------------------------------------------------------------- governance
\* ColdStorageTransferProposal (handler.go NewProposalsHandler, keeper.ColdStorageTransfer): vouchers are minted to the
\* transit account and sent, as an ordinary outgoing transfer without fee, to the chain's cold storage address
\* (keeper.GetColdStorageAddr); its refund address is the transit account on the hub.  The proposal handler runs in a
\* cache context: an error discards everything.
ColdAddr(chain) == "cold-" \o chain
ColdHash == "e3b0c44298fc1c149afbf4c8996fb92427ae41e4649b934ca495991b7852b855"      \* sha256 of the empty tx bytes
IsColdTransfer(chain, tr) == tr.s = "tmp" /\ tr.d = ColdAddr(chain)
\* a.coins = <<<<denom, amount>>, ..>>: one transfer per coin, each with vouchers minted for it alone
MsgGovCold(s, a) ==
    IF a.chain \notin {"ethereum", "minter", "bsc"} \/ ~IsChain(Cfg(s), a.chain) THEN Err(s)
    ELSE LET F[k \in 0..Len(a.coins)] ==
                 IF k = 0 THEN [ok |-> TRUE, s |-> s, id |-> 0]
                 ELSE IF ~F[k - 1].ok THEN F[k - 1]
                 ELSE LET d == a.coins[k][1]
                          amt == a.coins[k][2]
                      IN CreateSend(Credit(F[k - 1].s, "tmp", d, amt), a.chain, "tmp", ColdAddr(a.chain), d, amt, 0, 0, ColdHash, "hub", "tmp")
             r == F[Len(a.coins)]
         IN IF r.ok THEN [out |-> "ok", s |-> r.s, id |-> r.id] ELSE Err(s)

\* ---------------------------------------------------------------- the step function
\* Step(s, a) = [out, s, id].  For "End" the caller has already put the staking module's end-of-block
\* validator powers into s.stk / s.tot (the staking EndBlocker runs before the bridge's).
Step1(s, a) ==
    CASE a.k = "Begin"    -> [out |-> "ok", s |-> BeginBlock(s, a.dt), id |-> 0]
      [] a.k = "End"      -> LET r == EndBlockHub(s) IN [out |-> IF r.panic THEN "panic" ELSE "ok", s |-> r.s, id |-> 0]
      [] a.k = "Send"     -> IF "x" \in DOMAIN a THEN MsgSendX(s, a) ELSE MsgSend(s, a)
      [] a.k = "BulkSend" -> LET F[k \in 0..a.n] == IF k = 0 THEN Ok(s) ELSE IF F[k - 1].out # "ok" THEN F[k - 1] ELSE MsgSend(F[k - 1].s, a)
                             IN F[a.n]
      [] a.k = "Cancel"   -> MsgCancel(s, a)
      [] a.k = "ReqBatch" -> MsgReqBatch(s, a)
      [] a.k = "Claim"    -> MsgClaim(s, a)
      [] a.k = "Confirm"  -> MsgConfirm(s, a)
      [] a.k = "SetKeys"  -> MsgSetKeys(s, a)
      \* TokenInfosChangeProposal: the token list is replaced (a.toks, with the store orderings the harness reports)
      [] a.k = "Gov"      -> IF a.p = "ColdStorage" THEN MsgGovCold(s, a)
                             ELSE IF a.p = "TokenInfos" /\ "toks" \in DOMAIN a /\ ~UseStaticCfg THEN Ok([s EXCEPT !.cfg.tokens = a.toks])
                             ELSE Ok(s)
      [] OTHER            -> Ok(s)

\* a transaction with several messages ("Tx", a.msgs): the messages run in order; if one fails, none takes effect
StepTx(s, msgs) ==
    LET F[k \in 0..Len(msgs)] == IF k = 0 THEN Ok(s) ELSE IF F[k - 1].out # "ok" THEN F[k - 1] ELSE Step1(F[k - 1].s, msgs[k])
        r == F[Len(msgs)]
    IN IF r.out = "ok" THEN r ELSE Err(s)
\* the states before each message of an accepted multi-message transaction (for the history variables)
TxStates(s, msgs) == LET F[k \in 0..Len(msgs)] == IF k = 0 THEN s ELSE Step1(F[k - 1], msgs[k]).s IN F

Step(s, a) == IF a.k = "Tx" THEN StepTx(s, a.msgs) ELSE Step1(s, a)

=============================================================================
