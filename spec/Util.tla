------------------------------ MODULE Util ------------------------------
(* Small helpers shared by all modules of the mhub2 specification.          *)
EXTENDS Integers, Sequences, FiniteSets, SequencesExt, FiniteSetsExt, Functions, TLC

\* partial functions with a dynamic (string) domain -------------------------------------------
Put(f, k, v)  == [x \in (DOMAIN f) \cup {k} |-> IF x = k THEN v ELSE f[x]]
Del(f, k)     == [x \in (DOMAIN f) \ {k} |-> f[x]]
Has(f, k)     == k \in DOMAIN f
Get(f, k, d)  == IF k \in DOMAIN f THEN f[k] ELSE d
EmptyFn       == <<>>

\* sequences ---------------------------------------------------------------------------------
RangeOf(s)      == {s[i] : i \in DOMAIN s}
SeqSum(s)       == FoldLeft(LAMBDA acc, x : acc + x, 0, s)
MapSeq(Op(_), s) == [i \in DOMAIN s |-> Op(s[i])]
FilterSeq(s, P(_)) == SelectSeq(s, P)
TakeN(s, n)     == IF Len(s) <= n THEN s ELSE SubSeq(s, 1, n)
\* sort a finite set into a sequence with a strict order
\* (by rank: the CommunityModules' SetToSortSeq enumerates permutations and is unusable beyond ~8 elements;
\*  elements the order does not separate keep an arbitrary but fixed relative order)
SortBy(S, Less(_, _)) ==
    LET n == Cardinality(S)
        rank == [x \in S |-> Cardinality({y \in S : Less(y, x)})]
        F[r \in 0..n] == IF r = 0 THEN <<>> ELSE F[r - 1] \o SetToSeq({x \in S : rank[x] = r - 1})
    IN F[n]

Min2(a, b) == IF a <= b THEN a ELSE b
Max2(a, b) == IF a >= b THEN a ELSE b
Abs(a)     == IF a < 0 THEN -a ELSE a

\* 10^k for the small exponents the bounded models use (TLC integers are 32 bit)
Pow10(k) == CASE k = 0 -> 1 [] k = 1 -> 10 [] k = 2 -> 100 [] k = 3 -> 1000 [] k = 4 -> 10000
              [] k = 5 -> 100000 [] k = 6 -> 1000000 [] OTHER -> 1000000000

\* convert an amount between decimal precisions, truncating (keeper.convertDecimals)
ConvDec(from, to, amt) ==
    IF from = to THEN amt
    ELSE IF to > from THEN amt * Pow10(to - from)
    ELSE amt \div Pow10(from - to)

=============================================================================
