SPECIFICATION SpecFull
CONSTANTS
  UseStaticCfg = TRUE
  StaticCfg <- EvmCfg
  Dev = {"RefundTruncatedDust"}
  Family = "evm"
  EvmChain = "ethereum"
  MaxLen = 110
  Amts = {10, 101}
  Fees = {0, 3}
  Users = {"a3"}
  SendChains = {"minter", "ethereum"}
  Denoms = {"usd", "hub"}
  DepChains = {"minter"}
  DepDests = {"hub", "ethereum"}
  MaxSends = 10
  MaxDeposits = 9
  MaxBlocks = 40
  Orchs = {"o1", "o2", "o3"}
  Exts = {"e1", "e2", "e3"}
  KeyChains = {"ethereum"}
  KeyVariants = {"good"}
  DepAmts = {400, 70}
  DepFees = {0, 5}
  WithKeysAndPrices = TRUE
  FeePaids = {1}
  StakePowers = {1, 2, 3}
  WatchNames = {}
  KeepHist = TRUE
  TwoLevel = TRUE
  EmitScripts = TRUE
CONSTRAINT Emit
INVARIANT SolvencyFull
INVARIANT CursorsConsistent
INVARIANT VotesAreReference
CHECK_DEADLOCK FALSE
