------------------------------- MODULE MC_Full -------------------------------
(***************************************************************************)
(* The whole bridge in one bounded model: the hub, the Hub2 contract with  *)
(* an adversarial relayer on one external chain (MC_Evm) and the Minter    *)
(* chain with the multisig and one connector per validator (MC_Minter).    *)
(* Users lock tokens in the contract or send coins to the multisig, for    *)
(* hub accounts or for the other chain; withdrawals, batches, signer-set   *)
(* changes, restarts and crashes of connectors interleave freely.          *)
(* Used in simulation mode: the behaviours are replayed on the real hub    *)
(* application + the real contract bytecode + the real connector           *)
(* functions (vhconn), and judged by the trace specification.              *)
(***************************************************************************)
EXTENDS MC_Evm, MC_Minter

fvars == <<hub, xw, g, hist, bad, pick, cnt, kx, mx, cn, down>>

\* scripts/cfg_full.json: keys on both chains, prices, v1 holds half of the stake, nothing in circulation at genesis
FullHub == KeysAt(InitMinterHub, Vals)
InitFull ==
    /\ InitEvmWith(FullHub)
    /\ mx = [h |-> 0, nonce |-> 0, thr |-> MinterThreshold, cust |-> <<>>, ref |-> <<>>,
             m |-> ValsetWeights(SortedMembers(Cfg(FullHub), CurrentSigners(FullHub, MC)))]
    /\ cn = [v \in Vals |-> [blk |-> 0, ev |-> 1, bat |-> 1, vs |-> 0]]
    /\ down = {}

FullEvmKinds == {"ConfirmGood", "ConfirmAll", "EvmDeposit", "EvmUpdateValset", "EvmSubmitBatch", "EvmMine", "AttestRef"}
FullAction(kind) ==
    IF kind \in FullEvmKinds THEN EvmAction(kind) /\ UNCHANGED <<mx, cn, down>>
    ELSE MinterAction(kind) /\ UNCHANGED kx
FullKinds == FullEvmKinds \cup MinterKinds

NextFull ==
    /\ cnt < MaxLen
    /\ IF ~TwoLevel THEN (\E kind \in FullKinds : FullAction(kind)) /\ pick' = ""
       ELSE IF pick = ""
       THEN /\ \E kind \in FullKinds : ENABLED FullAction(kind) /\ pick' = kind
            /\ UNCHANGED <<hub, xw, g, hist, bad, cnt, kx, mx, cn, down>>
       ELSE FullAction(pick) /\ pick' = ""

SpecFull == InitFull /\ [][NextFull]_fvars

\* solvency against the real custody on both sides
SolvencyFull ==
    \/ Solvent(hub, [xw EXCEPT ![C].cust = [t \in DOMAIN @ |-> Get(kx.cust, t, 0)],
                               ![MC].cust = [t \in DOMAIN @ |-> Get(mx.cust, t, 0)],
                               ![MC].done = {<<e.tok, e.bn>> : e \in {e \in RangeOf(mx.ref) : e.t = "Exec"}}])
    \/ (DumpCex /\ FALSE)
=============================================================================
