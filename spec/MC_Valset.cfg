SPECIFICATION Spec
CONSTANTS
  UseStaticCfg = TRUE
  StaticCfg <- DefaultCfg
  Dev = {"RefundTruncatedDust"}
  Family = "valset"
  MaxLen = 5
  Amts = {10}
  Fees = {0}
  Users = {"a1"}
  SendChains = {"ethereum"}
  Denoms = {"hub"}
  DepChains = {"minter"}
  DepDests = {"hub"}
  MaxSends = 1
  MaxDeposits = 1
  MaxBlocks = 3
  Orchs = {"o1", "o2"}
  Exts = {"e1", "e2"}
  KeyChains = {"ethereum"}
  KeyVariants = {"good", "wrongkey"}
  KeepHist = FALSE
  TwoLevel = FALSE
  EmitScripts = FALSE
VIEW View
INVARIANT NoStepViolation
CHECK_DEADLOCK FALSE
