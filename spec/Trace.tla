------------------------------ MODULE Trace ------------------------------
(***************************************************************************)
(* Trace validation: executions of the REAL application (recorded by the   *)
(* Go harness, one JSON object per step: action, result, projected         *)
(* post-state) are checked against the specification.                      *)
(*                                                                         *)
(* For every step  pre --act--> post  TLC computes                         *)
(*   exp == Step(pre, act)          the specification's post-state         *)
(* and evaluates                                                           *)
(*   - conformance checks  "conf:<component>"   exp and post agree on a    *)
(*     component of the abstract state,                                    *)
(*   - property predicates "C..:<name>"  stated directly on                *)
(*     (pre, act, res, post) and on history variables.                     *)
(* The names of all failed checks of a step are collected in `fails`; the  *)
(* configuration's Watch set selects which of them are violations of the   *)
(* property being checked.  Several traces are concatenated; a "reset"     *)
(* line starts a new one.                                                  *)
(***************************************************************************)
EXTENDS ExtWorld, Hub2, Minter, Json, IOUtils

Trace == ndJsonDeserialize(IOEnv.VERIF_TRACE)
NoCfg == <<>>   \* traces carry their configuration in every state (cfg # "static")

VARIABLES l,        \* index of the last consumed trace line
          fails,    \* names of the checks that failed on line l
          hist      \* history needed by the property predicates (reset with each trace)

vars == <<l, fails, hist>>

\* ---------------------------------------------------------------- JSON -> specification state
TokOf(j) == [id |-> j.id, denom |-> j.denom, chain |-> j.chain, ext |-> j.ext, dec |-> j.dec,
             rnum |-> j.rnum, rden |-> j.rden, ord |-> j.ord, pfx |-> RangeOf(j.pfx)]
CfgOf(reset) ==
    [chains |-> reset.cfg.chains,
     tokens |-> [i \in DOMAIN reset.aux.tokens |-> TokOf(reset.aux.tokens[i])],
     out_timeout |-> reset.cfg.out_timeout_ms \div 1000,
     target_ms |-> reset.cfg.target_ms, avg_block_ms |-> reset.cfg.avg_block_ms,
     avg_eth_ms |-> reset.cfg.avg_eth_ms, avg_bsc_ms |-> reset.cfg.avg_bsc_ms,
     ss_window |-> reset.cfg.ss_window, extord |-> reset.aux.extord, valrank |-> reset.aux.valrank]

TrOf(j) == [id |-> j.id, s |-> j.s, d |-> j.d, tok |-> j.tok, a |-> j.a, f |-> j.f, c |-> j.c,
            x |-> j.x, ct |-> j.ct, ra |-> j.ra, rc |-> j.rc]
BatOf(j) == [n |-> j.n, tok |-> j.tok, txs |-> [i \in DOMAIN j.txs |-> TrOf(j.txs[i])], to |-> j.to, ht |-> j.ht, seq |-> j.seq]
SSOf(j)  == [n |-> j.n, ht |-> j.ht, seq |-> j.seq, m |-> j.m]
VoteOf(j, i) == [n |-> j.n, cid |-> ClaimId(j.ev), ev |-> j.ev, voters |-> j.voters, acc |-> j.acc, ord |-> i]
ChainOf(c) ==
    [pool |-> {TrOf(c.pool[i]) : i \in DOMAIN c.pool},
     bat  |-> {BatOf(c.bat[i]) : i \in DOMAIN c.bat},
     ss   |-> {SSOf(c.ss[i]) : i \in DOMAIN c.ss},
     txid |-> c.cnt.txid, bn |-> c.cnt.bn, seq |-> c.cnt.seq, ssn |-> c.cnt.ssn,
     lon |-> c.cnt.lon, lohc |-> c.cnt.lohc, lohe |-> c.cnt.lohe,
     loss |-> c.loss,
     votes |-> {VoteOf(c.votes[i], i) : i \in DOMAIN c.votes},
     lnv |-> c.lnv,
     sigs |-> {[tx |-> c.sigs[i].tx, by |-> c.sigs[i].by] : i \in DOMAIN c.sigs},
     ve |-> c.keys.ve, ov |-> c.keys.ov, eo |-> c.keys.eo, q |-> c.q]
StateOf(j, cfg) ==
    [cfg |-> cfg, h |-> j.h, t |-> j.t, inb |-> j.inb, bal |-> j.bal, sup |-> j.sup, stk |-> j.stk, tot |-> j.tot,
     ch |-> [c \in DOMAIN j.ch |-> ChainOf(j.ch[c])], st |-> j.st, fr |-> j.fr,
     hold |-> j["or"].holdw, pr |-> j["or"].pr,
     evm |-> IF "evm" \in DOMAIN j THEN j.evm ELSE <<>>,
     mnt |-> IF "mnt" \in DOMAIN j THEN j.mnt ELSE <<>>,
     cn  |-> IF "cn" \in DOMAIN j THEN j.cn ELSE <<>>]

Dead(j) == "dead" \in DOMAIN j

\* ---------------------------------------------------------------- conformance: specification vs observed
NoOrd(votes) == {[n |-> r.n, cid |-> r.cid, ev |-> r.ev, voters |-> r.voters, acc |-> r.acc] : r \in votes}

ChainDiffs(c, e, o) ==   \* e expected, o observed chain state; returns the set of differing component names
       (IF e.pool # o.pool THEN {<<"conf:pool", c>>} ELSE {})
  \cup (IF e.bat # o.bat THEN {<<"conf:bat", c>>} ELSE {})
  \cup (IF <<e.txid, e.bn, e.seq>> # <<o.txid, o.bn, o.seq>> THEN {<<"conf:cnt", c>>} ELSE {})
  \cup (IF <<e.lon, e.lohc, e.lohe>> # <<o.lon, o.lohc, o.lohe>> THEN {<<"conf:lon", c>>} ELSE {})
  \cup (IF NoOrd(e.votes) # NoOrd(o.votes) THEN {<<"conf:votes", c>>} ELSE {})
  \cup (IF e.lnv # o.lnv THEN {<<"conf:lnv", c>>} ELSE {})
  \cup (IF e.ss # o.ss \/ e.ssn # o.ssn THEN {<<"conf:ss", c>>} ELSE {})
  \cup (IF e.loss # o.loss THEN {<<"conf:loss", c>>} ELSE {})
       \* (signatures are projected for stored outgoing txs only; the store keeps those of deleted txs as orphans)
  \cup (IF {gs \in e.sigs : (gs.tx.t = "ss" /\ \E x \in e.ss : x.n = gs.tx.n) \/ (gs.tx.t = "bat" /\ \E b \in e.bat : b.n = gs.tx.n /\ b.tok = gs.tx.tok)} # o.sigs
        THEN {<<"conf:sigs", c>>} ELSE {})
  \cup (IF <<e.ve, e.ov, e.eo>> # <<o.ve, o.ov, o.eo>> THEN {<<"conf:keys", c>>} ELSE {})

StateDiffs(e, o) ==
       UNION {ChainDiffs(c, e.ch[c], o.ch[c]) : c \in DOMAIN o.ch}
  \cup (IF e.bal # o.bal THEN {<<"conf:bal", "">>} ELSE {})
  \cup (IF e.sup # o.sup THEN {<<"conf:sup", "">>} ELSE {})
  \cup (IF e.st # o.st THEN {<<"conf:st", "">>} ELSE {})
  \cup (IF e.fr # o.fr THEN {<<"conf:fr", "">>} ELSE {})
  \cup (IF <<e.h, e.t>> # <<o.h, o.t>> THEN {<<"conf:clock", "">>} ELSE {})

\* kinds of actions the hub specification predicts
Modelled(a) == a.k \in {"Begin", "End", "Send", "BulkSend", "Cancel", "ReqBatch", "Claim", "Confirm", "SetKeys", "Tx"}
               \/ (a.k = "Gov" /\ a.p \in {"ColdStorage", "TokenInfos"})
\* a passed TokenInfosChangeProposal replaces the token list: from this line on the configuration carries the new one
NewTokens(line) == [i \in DOMAIN line.res.aux.tokens |-> TokOf(line.res.aux.tokens[i])]
TokensChanged(line) == line.act.k = "Gov" /\ line.act.p = "TokenInfos" /\ line.res.out = "ok" /\ "aux" \in DOMAIN line.res
\* a claim "by reference" (the k-th event of the real contract's log) that the harness could not resolve: the log is shorter than
\* the behaviour expected, i.e. an earlier contract step went differently from the contract specification (reported there).
\* It is no hub step; it is recorded as conf:ref instead of being interpreted.
UnresolvedRef(a) == a.k = "Claim" /\ "n" \notin DOMAIN a.ev
ActOf(line) == IF TokensChanged(line) THEN [k |-> "Gov", p |-> "TokenInfos", i |-> line.act.i, toks |-> NewTokens(line)]
               ELSE IF UnresolvedRef(line.act) THEN [k |-> "UnresolvedRef", i |-> line.act.i]
               ELSE line.act
CfgAfter(cfg, line) == IF TokensChanged(line) THEN [cfg EXCEPT !.tokens = NewTokens(line)] ELSE cfg

\* the pre-state handed to Step: for "End" the staking module's validator update has already happened
PreFor(a, pre, post) == IF a.k = "End" THEN [pre EXCEPT !.stk = post.stk, !.tot = post.tot] ELSE pre

OutClass(res) == IF res.out \in {"ok", "err"} THEN res.out ELSE "panic"

ConfChecks(pre, a, res, post) ==
    IF ~Modelled(a) THEN {}
    ELSE LET e == Step(PreFor(a, pre, post), a)
         IN    (IF e.out # OutClass(res) THEN {<<"conf:out", "">>} ELSE {})
          \cup (IF e.out = "ok" /\ res.out = "ok" THEN StateDiffs(e.s, post) ELSE {})
          \cup (IF a.k = "Send" /\ res.out = "ok" /\ e.out = "ok" /\ e.id # res.id THEN {<<"conf:id", "">>} ELSE {})

\* ---------------------------------------------------------------- property predicates needing the diff
\* C11  a failed message changes nothing (projected state; the raw digest is compared by the runner)
FailedIsNoop(pre, a, res, post) ==
    IF a.k \in {"Begin", "End"} \/ res.out # "err" THEN {}
    ELSE IF StateDiffs(pre, post) # {} THEN {<<"C11:FailedIsNoop", "">>} ELSE {}

\* C01 needs the external world (custody): only behaviours of families that script it (Ext* lines) qualify
WithWorld(fam) == fam \in {"econ", "bulk", "fees", "evm", "minter", "gov"}
ExtAct(a) == a.k \in {"ExtDeposit", "ExtExec", "ExtMine"}
\* an ExtExec line must pay out exactly the batch the hub holds (otherwise the script is inconsistent)
ExecConsistent(xw, pre, a) ==
    a.k # "ExtExec" \/ \E b \in pre.ch[a.chain].bat \cup xw[a.chain].pub :
                            /\ b.tok = a.ev.tok /\ b.n = a.ev.bn /\ a.paid = SumOver(b.txs, LAMBDA tr : tr.a)
                            /\ (IF "cold" \in DOMAIN a THEN a.cold ELSE 0) = SumOver(b.txs, LAMBDA tr : IF IsColdTransfer(a.chain, tr) THEN tr.a ELSE 0)

\* C16  the relayer-facing queries answer exactly the recorded confirmations, each attributed to the external
\* address its validator had registered when it confirmed (gc: chain -> tx -> validator -> that address), and
\* list as unsigned exactly the stored txs the asking validator has not confirmed
GcInit(s) == [c \in DOMAIN s.ch |-> <<>>]
GcOne(gc, pre, a) ==
    IF a.k = "Confirm" /\ a.chain \in DOMAIN gc
    THEN LET v == SignerVal(pre, a.chain, a.by)
         IN [gc EXCEPT ![a.chain] = Put(@, a.tx, Put(Get(@, a.tx, <<>>), v, a.ext))]
    ELSE gc
GcNext(gc, pre, a, res) ==
    IF res.out # "ok" THEN gc
    ELSE IF a.k = "Tx" THEN FoldLeft(LAMBDA acc, m : GcOne(acc, pre, m), gc, a.msgs)
    ELSE GcOne(gc, pre, a)
IsAscending(seq) == \A i \in 1..(Len(seq) - 1) : seq[i] < seq[i + 1]
C16Queries(gc, post) ==
    UNION {
      LET ch == post.ch[c] IN
      UNION {
        LET hits == {i \in DOMAIN ch.q.conf : ch.q.conf[i].tx = gsig.tx}
            list == IF hits = {} THEN <<>> ELSE ch.q.conf[CHOOSE i \in hits : TRUE].list
            rec(v) == Get(Get(gc[c], gsig.tx, <<>>), v, "?")
            want == {<<rec(v), gsig.by[v]>> : v \in DOMAIN gsig.by}
            cur  == {<<Get(ch.ve, v, "?"), gsig.by[v]>> : v \in DOMAIN gsig.by}
        IN Fail(RangeOf(list) # want \/ Len(list) # Cardinality(DOMAIN gsig.by), "C16:ConfirmationsQuery",
                IF RangeOf(list) = cur /\ Len(list) = Cardinality(DOMAIN gsig.by) THEN "current-address" ELSE c)
        : gsig \in ch.sigs}
      \cup UNION {
        LET u == ch.q.unsigned[v]
            \* the query is asked with the account of v; it answers for the validator that account acts for on this chain
            \* (the one that registered it as orchestrator, else the validator it operates)
            w == SignerVal(post, c, v)
        IN IF ~u.ok
           THEN Fail(w # "", "C16:UnsignedQueryRefused", c)
           ELSE Fail(w = "", "C16:UnsignedQueryAnswered", c)
           \cup Fail(RangeOf(u.ss) # {x.n : x \in {x \in ch.ss : ~Has(SigsOf(post, c, [t |-> "ss", n |-> x.n]), w)}}, "C16:UnsignedSignerSets", c)
           \cup Fail({<<p[1], p[2]>> : p \in RangeOf(u.bat)} # {<<b.tok, b.n>> : b \in {b \in ch.bat : ~Has(SigsOf(post, c, [t |-> "bat", tok |-> b.tok, n |-> b.n]), w)}}, "C16:UnsignedBatches", c)
           \cup Fail(~IsAscending([i \in DOMAIN u.bat |-> u.bat[i][2]]) /\ Cardinality({p[2] : p \in RangeOf(u.bat)}) = Len(u.bat), "C16:UnsignedBatchOrder", c)
        : v \in DOMAIN ch.q.unsigned}
      : c \in DOMAIN post.ch}

\* ---------------------------------------------------------------- C08 / C07 / C13 against the REAL contract
\* post.evm[c] is read from the real Hub2 bytecode on the simulated EVM; the relayer of the harness builds its
\* calldata only from the hub's query results (signer set / batch, confirmations attributed by the queries).
ContractOf(e) == [blk |-> e.blk, vsn |-> e.vsn, evn |-> e.evn, set |-> [n |-> e.set.n, m |-> e.set.m], lbn |-> e.lbn, cust |-> e.cust, thr |-> e.thr]
ConfsOf(s, c, tx) ==
    LET hits == {i \in DOMAIN s.ch[c].q.conf : s.ch[c].q.conf[i].tx = tx}
    IN IF hits = {} THEN <<>> ELSE s.ch[c].q.conf[CHOOSE i \in hits : TRUE].list
\* per member of the contract's current set: no signature / a signature by that member / something else
RelayerMarks(s, c, tx, a) ==
    LET k == ContractOf(s.evm[c])
        confs == RangeOf(ConfsOf(s, c, tx))
        incl(A) == "sigs" \notin DOMAIN a \/ \E v \in RangeOf(a.sigs) : Get(s.ch[c].ve, v, "") = A
    IN [i \in DOMAIN k.set.m |->
          LET A == k.set.m[i][1]
              mine == {p \in confs : p[1] = A}
          IN IF mine = {} \/ ~incl(A) THEN "none" ELSE IF \E p \in mine : p[2] = A THEN "ok" ELSE "bad"]
EvmChecks(g, pre, a, res, post) ==
    IF pre.evm = <<>> \/ a.k \notin {"EvmDeposit", "EvmUpdateValset", "EvmSubmitBatch", "EvmMine"} THEN {}
    ELSE LET c == a.chain
             k == ContractOf(pre.evm[c])
             k2 == ContractOf(post.evm[c])
         IN CASE a.k = "EvmUpdateValset" ->
                   LET sets == {x \in pre.ch[c].ss : x.n = a.n} IN
                   IF sets = {} THEN Fail(res.out = "ok", "C08:AcceptIffQuorum", "unknown-set")
                   ELSE LET ss == CHOOSE x \in sets : TRUE
                            want == UpdateAccepts(k, ss.n, k.set, RelayerMarks(pre, c, [t |-> "ss", n |-> ss.n], a))
                            marks == RelayerMarks(pre, c, [t |-> "ss", n |-> ss.n], a)
                        IN   Fail((res.out = "ok") # want, "C08:AcceptIffQuorum", IF want THEN "valset-rejected" ELSE "valset-accepted")
                             \* whatever the powers: an update every member of the contract's current set signed must pass
                        \cup Fail(res.out # "ok" /\ ss.n > k.set.n /\ Len(k.set.m) > 0 /\ (\A i \in DOMAIN marks : marks[i] = "ok"), "C08:FullSetRejected", "valset")
                        \cup Fail(res.out = "ok" /\ ~(k2.set = [n |-> ss.n, m |-> ss.m] /\ k2.vsn = ss.n /\ k2.evn = k.evn + 1), "C08:ContractState", "valset")
                        \cup Fail(res.out # "ok" /\ <<k2.set, k2.vsn, k2.evn, k2.lbn>> # <<k.set, k.vsn, k.evn, k.lbn>>, "C08:RevertChangedState", "valset")
              [] a.k = "EvmSubmitBatch" ->
                   LET bs == {b \in pre.ch[c].bat : b.tok = a.tok /\ b.n = a.n} IN
                   IF bs = {}
                   THEN \* a batch the hub no longer holds: withdrawn (then the contract must refuse it for ever) or already executed
                        Fail(res.out = "ok" /\ <<a.tok, a.n>> \in g.wd[c], "C13:WithdrawnBatchExecuted", c)
                   ELSE LET b == CHOOSE b \in bs : TRUE
                            want == BatchAccepts(k, k.set, RelayerMarks(pre, c, [t |-> "bat", tok |-> b.tok, n |-> b.n], a), b)
                            paid == SumOver(b.txs, LAMBDA tr : tr.a)
                            bmarks == RelayerMarks(pre, c, [t |-> "bat", tok |-> b.tok, n |-> b.n], a)
                        IN   Fail((res.out = "ok") # want, "C08:AcceptIffQuorum", IF want THEN "batch-rejected" ELSE "batch-accepted")
                        \cup Fail(res.out # "ok" /\ Get(k.lbn, b.tok, 0) < b.n /\ k.blk + 1 < b.to /\ Len(k.set.m) > 0 /\ (\A i \in DOMAIN bmarks : bmarks[i] = "ok"),
                                  "C08:FullSetRejected", "batch")
                        \cup Fail(res.out = "ok" /\ ~(Get(k2.lbn, b.tok, 0) = b.n /\ k2.evn = k.evn + 1 /\ Get(k2.cust, b.tok, 0) = Get(k.cust, b.tok, 0) - paid), "C08:ContractState", "batch")
                        \cup Fail(res.out # "ok" /\ <<k2.set, k2.vsn, k2.evn, k2.lbn, k2.cust>> # <<k.set, k.vsn, k.evn, k.lbn, k.cust>>, "C08:RevertChangedState", "batch")
              [] a.k = "EvmDeposit" ->
                   Fail(res.out = "ok" /\ ~(Get(k2.cust, a.tok, 0) = Get(k.cust, a.tok, 0) + a.amt /\ k2.evn = k.evn + 1), "C08:DepositLocks", c)
              [] OTHER -> {}
\* the hub never runs ahead of the contract, and is in step with it once every emitted event is applied
EvmInStep(post) ==
    IF post.evm = <<>> THEN {}
    ELSE UNION {
          LET k == ContractOf(post.evm[c]) h == post.ch[c] IN
               Fail(h.lon > k.evn, "C08:InStep", "event-nonce-ahead")
          \cup Fail(h.loss # <<>> /\ h.loss.n > k.vsn, "C08:InStep", "valset-ahead")
          \cup Fail(h.lon = k.evn /\ h.loss # <<>> /\ ~(h.loss.n = k.vsn /\ h.loss.m = k.set.m), "C08:InStep", "valset-differs")
               \* C07: the digest the hub computes for the contract's current set is the checkpoint the contract stores
          \cup Fail(post.evm[c].cp # post.evm[c].cph, "C07:CheckpointAgrees", c)
          : c \in DOMAIN post.evm}

\* ---------------------------------------------------------------- the Minter loop (family "minter")
\* post.mnt is the Minter chain model (multisig, custody, reference event numbering), post.cn the cursors of the
\* connectors.  Lines "ConnScan" / "ConnBatches" / "ConnValsets" / "ConnRestart" report what one call of the REAL
\* connector function did: res.cur0 / res.cur1 the cursor before and after (with the persisted one in .disk),
\* res.outs the messages it committed to the hub (already consumed as ordinary steps), res.subs what it submitted
\* to the multisig, res.ack the nonce the hub acknowledged.  `call` is the state at the moment of the call.
QConfAddrs(s, tx) == {p[1] : p \in RangeOf(ConfsOf(s, MC, tx))}
ConnAct(a) == a.k \in {"ConnScan", "ConnBatches", "ConnValsets", "ConnRestart", "ConnCrashScan", "ConnReinit"}
ClaimEvs(outs) == [i \in DOMAIN outs |-> outs[i].ev]
SubChecks(mx, sub, seqno, body, want, signersWant, who) ==
         Fail(~(sub.decoded /\ sub.sender_ok /\ sub.nonce = seqno /\ body), "C08:MinterTxMatches", who)
    \cup Fail(RangeOf(sub.signers) # signersWant \/ Len(sub.signers) # Cardinality(signersWant), "C08:MinterSignaturesValid", who)
    \cup Fail(sub.accepted # want, "C08:AcceptIffQuorum", IF want THEN who \o "-rejected" ELSE who \o "-accepted")
MinterChecks(call, pre, a, res) ==
    IF pre.mnt = <<>> \/ ~ConnAct(a) THEN {}
    \* (the connector of a validator the hub does not resolve -- unbonded, jailed -- gets errors from the hub's queries: its passes
    \*  return early and its start-up gives up; that is outside the listed properties)
    ELSE IF res.out # "ok" THEN (IF Has(call.ch[MC].q.unsigned, a.by) /\ call.ch[MC].q.unsigned[a.by].ok THEN {<<"C20:ConnectorFails", res.out>>} ELSE {})
    ELSE
    LET mx   == pre.mnt          \* the chain when the pass submitted / finished (a pass submits last)
        mx0  == call.mnt
        cur0 == CursorOf(res.cur0)
        cur1 == CursorOf(res.cur1)
        dsk0 == CursorOf(res.cur0.disk)
        dsk1 == CursorOf(res.cur1.disk)
        v    == a.by
        conf(tx) == QConfAddrs(pre, tx)
    IN CASE a.k = "ConnScan" ->
              IF ~CursorConsistent(mx0, cur0) THEN {}      \* reported where the cursor went wrong
              ELSE   Fail(ClaimEvs(res.outs) # ScanClaims(mx0, cur0), "C20:SameNonce", v)
                \cup Fail(cur1 # CursorAt(mx0, ScanTo(mx0, cur0)) \/ dsk1 # cur1, "C20:CursorConsistent", v)
         [] a.k = "ConnCrashScan" ->      \* a pass whose cursor is lost (crash between the hub's commit and the status file)
              IF ~CursorConsistent(mx0, cur0) \/ ~CursorConsistent(mx0, dsk0) THEN {}
              ELSE   Fail(res.outs # <<>> /\ ClaimEvs(res.outs) # ScanClaims(mx0, cur0), "C20:SameNonce", v)
                     \* what the status file says at the moment of the kill is consistent (and is what memory holds after the reload)
                \cup Fail(~CursorConsistent(mx0, dsk1) \/ dsk1 # cur1, "C20:CursorConsistent", v)
         \* (ConnReinit: no status file, the configured start cursor plays the part of the persisted one)
         [] a.k \in {"ConnRestart", "ConnReinit"} ->
              IF ~CursorConsistent(mx0, dsk0) THEN {}
              ELSE   Fail(~CursorConsistent(mx0, dsk1) \/ dsk1 # cur1, "C20:CursorConsistent", v)
                \cup Fail(cur1 # CursorAt(mx0, ResyncTo(mx0, dsk0, res.ack)), "conf:resync", v)
         [] a.k = "ConnBatches" ->
              LET u    == pre.ch[MC].q.unsigned
                  want == IF Has(u, v) /\ ~u[v].ok THEN <<>> ELSE BatchToRelay(pre, cur0, conf)
              IN   Fail(Has(u, v) /\ u[v].ok /\ u[v].bat # <<>>, "C08:ConnectorConfirmsAll", v)
              \cup Fail(want = <<>> /\ res.subs # <<>>, "conf:relay", "unexpected-batch-submission")
              \cup Fail(want # <<>> /\ Len(res.subs) # 1, "conf:relay", "no-batch-submission")
              \cup (IF want = <<>> \/ Len(res.subs) # 1 THEN {}
                    ELSE LET b == want[1]
                             sub == res.subs[1]
                             signers == conf([t |-> "bat", tok |-> b.tok, n |-> b.n]) \cap MsigMembers(mx)
                         IN SubChecks(mx, sub, b.seq, sub.type = "multisend" /\ sub.items = BatchItems(b),
                                      MsigAccepts(mx, b.seq, signers) /\ Get(mx.cust, b.tok, 0) >= SumOver(b.txs, LAMBDA tr : tr.a), signers, "batch"))
         [] a.k = "ConnValsets" ->
              LET u    == pre.ch[MC].q.unsigned
                  want == IF Has(u, v) /\ ~u[v].ok THEN <<>> ELSE SetToRelay(pre, cur0, conf)
              IN   Fail(Has(u, v) /\ u[v].ok /\ u[v].ss # <<>>, "C08:ConnectorConfirmsAll", v)
              \cup Fail(want = <<>> /\ res.subs # <<>>, "conf:relay", "unexpected-valset-submission")
              \cup Fail(want # <<>> /\ Len(res.subs) # 1, "conf:relay", "no-valset-submission")
              \cup (IF want = <<>> \/ Len(res.subs) # 1 THEN {}
                    ELSE LET x == want[1]
                             sub == res.subs[1]
                             ed == ValsetEdit(x)
                             signers == conf([t |-> "ss", n |-> x.n]) \cap MsigMembers(mx)
                         IN SubChecks(mx, sub, x.seq, sub.type = "editmsig" /\ sub.m = ed.m /\ sub.thr = ed.thr /\ sub.payload = ed.payload,
                                      MsigAccepts(mx, x.seq, signers), signers, "valset"))
         [] OTHER -> {}

\* the hub never runs ahead of the Minter chain; what it applied is the reference event of that nonce; once every
\* event is applied its view of the signer set is the multisig's and no executed batch is still pending
MinterInStep(post) ==
    IF post.mnt = <<>> THEN {}
    ELSE LET h == post.ch[MC]
             mx == post.mnt
             sets == SelectSeq(mx.ref, LAMBDA e : e.t = "SSExec")
         IN   Fail(h.lon > Len(mx.ref), "C08:InStep", "event-nonce-ahead")
         \cup Fail(\E r \in h.votes : r.acc /\ (r.n > Len(mx.ref) \/ r.ev # mx.ref[r.n]), "C08:InStep", "applied-event-differs")
         \cup Fail(h.lon = Len(mx.ref) /\ sets # <<>> /\ h.loss # [n |-> sets[Len(sets)].ssn, m |-> sets[Len(sets)].m], "C08:InStep", "valset-differs")
         \cup Fail(\E e \in ExecutedRefs(mx, h.lon) : \E b \in h.bat : b.tok = e.tok /\ b.n = e.bn, "C08:InStep", "executed-batch-pending")
         \cup Fail(\E v \in DOMAIN post.cn : ~CursorConsistent(mx, CursorOf(post.cn[v].disk)), "C20:PersistedCursor", "inconsistent")

PropChecks(g, xw, fam, pre, a, res, post) ==
       FailedIsNoop(pre, a, res, post)
  \cup (IF Modelled(a) THEN StepChecks(g, pre, a, res, post) \cup C01Step(pre, a, post) ELSE C05Checks(a, res))
  \cup (IF WithWorld(fam) /\ ~SolventG(post, xw, IF Modelled(a) THEN GhostNext(g, pre, a, res, post) ELSE g) THEN {<<"C01:Solvency", "">>} ELSE {})
  \cup EvmChecks(g, pre, a, res, post) \cup EvmInStep(post) \cup MinterInStep(post)
  \cup (IF WithWorld(fam) /\ ~ExecConsistent(xw, pre, a) THEN {<<"infra:ExecInconsistent", "">>} ELSE {})

\* ---------------------------------------------------------------- the trace automaton
InitHist == [cfg |-> <<>>, pre |-> <<>>, call |-> <<>>, g |-> <<>>, gc |-> <<>>, xw |-> <<>>, fam |-> "", n |-> 0, id |-> "", viol |-> {}, cov |-> <<>>]

\* coverage counters: how often each kind of step / outcome was seen (anti-vacuity evidence)
Bump(cov, key) == Put(cov, key, Get(cov, key, 0) + 1)
CovKey(a, res) == a.k \o "/" \o res.out

Init == l = 0 /\ fails = {} /\ hist = InitHist

ConsumeReset ==
    /\ l < Len(Trace) /\ Trace[l + 1].k = "reset"
    /\ LET cfg == CfgOf(Trace[l + 1])
           st0 == StateOf(Trace[l + 1].post, cfg)
       IN hist' = [hist EXCEPT !.cfg = cfg, !.pre = st0, !.g = GhostInit(st0), !.gc = GcInit(st0), !.xw = XwInit(st0), !.fam = Trace[l + 1].family,
                               !.n = hist.n + 1, !.id = Trace[l + 1].id]
    /\ fails' = {}
    /\ l' = l + 1

ConsumeStep ==
    /\ l < Len(Trace) /\ Trace[l + 1].k = "step"
    /\ LET line == Trace[l + 1] IN
       IF Dead(line.post)
       THEN /\ fails' = C05Checks(line.act, line.res)
            /\ hist' = [hist EXCEPT !.viol = @ \cup {<<hist.id, line.i, f[1], f[2]>> : f \in fails'},
                                    !.cov = Bump(@, CovKey(line.act, line.res))]
       ELSE LET post == StateOf(line.post, CfgAfter(hist.cfg, line))
                act  == ActOf(line)
                gc2  == GcNext(hist.gc, hist.pre, act, line.res)
                xw0  == IF ExtAct(act) /\ WithWorld(hist.fam) THEN XwApply(hist.xw, act) ELSE hist.xw
                \* evm family: custody and executed batches are what the real contract reports
                xw1  == IF post.evm # <<>>
                        THEN [c \in DOMAIN xw0 |->
                                IF c \in DOMAIN post.evm
                                THEN [xw0[c] EXCEPT !.cust = [t \in DOMAIN @ |-> Get(post.evm[c].cust, t, 0)],
                                                    !.done = IF act.k = "EvmSubmitBatch" /\ line.res.out = "ok" /\ act.chain = c
                                                             THEN @ \cup {<<act.tok, act.n>>} ELSE @]
                                ELSE xw0[c]]
                        ELSE xw0
                \* minter family: custody and executed batches are what the Minter chain model reports
                xw1m == IF post.mnt # <<>>
                        THEN [xw1 EXCEPT ![MC].cust = [t \in DOMAIN @ |-> Get(post.mnt.cust, t, 0)],
                                         ![MC].done = {<<e.tok, e.bn>> : e \in {e \in RangeOf(post.mnt.ref) : e.t = "Exec"}}]
                        ELSE xw1
                xw2  == IF WithWorld(hist.fam) THEN XwObserve(xw1m, post) ELSE xw1m
            IN /\ fails' = (IF act.k = "UnresolvedRef" THEN {<<"conf:ref", "">>} ELSE {}) \cup ConfChecks(hist.pre, act, line.res, post) \cup PropChecks(hist.g, xw2, hist.fam, hist.pre, act, line.res, post)
                            \cup C16Queries(gc2, post) \cup MinterChecks(hist.call, hist.pre, act, line.res)
               /\ hist' = [hist EXCEPT !.pre = post, !.xw = xw2, !.gc = gc2, !.cfg = CfgAfter(hist.cfg, line),
                                       !.call = IF act.k = "ConnCall" THEN post ELSE @,
                                       !.g = IF Modelled(act) THEN GhostNext(hist.g, hist.pre, act, line.res, post) ELSE hist.g,
                                       !.viol = @ \cup {<<hist.id, line.i, f[1], f[2]>> : f \in fails'},
                                       !.cov = Bump(@, CovKey(line.act, line.res))]
    /\ l' = l + 1

\* the real contract's constructor refused the hub's current signer set (the behaviour could not even start)
ConsumeDeployFail ==
    /\ l < Len(Trace) /\ Trace[l + 1].k = "deployfail"
    /\ fails' = {<<"C08:InitialSetRejected", "constructor">>}
    /\ hist' = [hist EXCEPT !.viol = @ \cup {<<Trace[l + 1].id, 0, "C08:InitialSetRejected", "constructor">>}, !.n = hist.n + 1, !.id = Trace[l + 1].id,
                            !.cov = Bump(@, "deployfail")]
    /\ l' = l + 1

Next == ConsumeReset \/ ConsumeStep \/ ConsumeDeployFail

Spec == Init /\ [][Next]_vars

\* ---------------------------------------------------------------- verdicts
\* Every failed check is recorded with (trace id, step index, check name, detail); the report is written as
\* JSON when the whole file has been consumed.  The runner decides which check names are violations of the
\* property it is deciding (and which are listed known findings).  Needs -workers 1.
Record == TLCSet(1, [viol |-> hist.viol, cov |-> hist.cov, traces |-> hist.n, lines |-> l])

Consumed == TLCGet("stats").diameter - 1 = Len(Trace)
Report ==
    /\ Consumed
    /\ JsonSerialize(IOEnv.VERIF_REPORT, TLCGet(1))

=============================================================================
