------------------------------ MODULE MC_Minter ------------------------------
(***************************************************************************)
(* Bounded model of the Minter loop (family "minter"): the hub, the Minter  *)
(* chain with the bridge multisig, and one connector per validator.        *)
(*                                                                         *)
(*   users send coins to the multisig with a command (well formed or not), *)
(*   connectors scan the Minter chain and claim the bridge events they     *)
(*   find, numbering them from their own cursor (relayMinterEvents),       *)
(*   connectors confirm batches / signer sets and submit the signed one    *)
(*   with the lowest sequence number to the multisig (relayBatches,        *)
(*   relayValsets), connectors restart (GetLatestMinterBlockAndNonce),     *)
(*   users withdraw to Minter, stake moves, blocks pass.                   *)
(*                                                                         *)
(* The connector steps are written from a reading of main.go with its own  *)
(* arithmetic (cursor + count, not "the right number"), so that the design *)
(* invariants below say something about it.  In simulation mode the        *)
(* behaviours become scripts that vhconn replays on the REAL hub           *)
(* application and the REAL connector functions; what those did is then    *)
(* judged by the trace specification, not by this model.                   *)
(***************************************************************************)
EXTENDS MC_Hub, Minter

VARIABLES mx,     \* the Minter chain [h, nonce, m, thr, cust, ref]
          cn,     \* connector cursors (persisted = in memory between passes): validator -> [blk, ev, bat, vs]
          down    \* connectors whose process has died and not been started again
mvars == <<hub, xw, g, hist, bad, pick, cnt, mx, cn, down>>

\* scripts/cfg_minter.json: keys and prices as in the fees family, v1 holds half of the stake (so that two
\* validators can reach the multisig threshold of 667/1000)
InitMinterHub ==
    [InitHub EXCEPT !.stk = [v \in Vals |-> [InitHub.stk[v] EXCEPT !.p = IF v = "v1" THEN 2 ELSE 1, !.tk = IF v = "v1" THEN 2 ELSE 1]],
                    !.tot = 4]

InitM ==
    /\ hub = InitMinterHub /\ g = GhostInit(InitMinterHub) /\ hist = <<>> /\ bad = {} /\ pick = "" /\ cnt = 0
    /\ xw = XwInit(InitMinterHub)
    /\ mx = [h |-> 0, nonce |-> 0, thr |-> MinterThreshold, cust |-> <<>>, ref |-> <<>>,
             m |-> ValsetWeights(SortedMembers(Cfg(InitMinterHub), CurrentSigners(InitMinterHub, MC)))]
    /\ cn = [v \in Vals |-> [blk |-> 0, ev |-> 1, bat |-> 1, vs |-> 0]]
    /\ down = {}

Rec(act) == /\ hist' = IF KeepHist THEN Append(hist, [act EXCEPT !.i = cnt + 1]) ELSE hist
            /\ cnt' = cnt + 1

\* hub steps caused by a scripted action of a connector: applied to the model's hub, not recorded one by one
Hidden(acts, scriptAct) ==
    LET F[k \in 0..Len(acts)] ==
          IF k = 0 THEN [s |-> hub, g |-> g, bad |-> {}]
          ELSE LET p   == F[k - 1]
                   act == [acts[k] EXCEPT !.i = cnt + 1]
                   r   == Step(p.s, act)
                   res == [out |-> r.out, id |-> r.id]
               IN [s |-> r.s, g |-> GhostNext(p.g, p.s, act, res, r.s), bad |-> p.bad \cup StepChecks(p.g, p.s, act, res, r.s) \cup C01Step(p.s, act, r.s)]
        f == F[Len(acts)]
    IN /\ hub' = f.s /\ g' = f.g /\ bad' = f.bad /\ Rec(scriptAct)

\* ---------------------------------------------------------------- the Minter chain
\* classes of a user transaction: ok (a well-formed command), feehigh / notjson (no command: the coins stay in custody),
\* other (not sent to the multisig), edit (not a user transfer at all: the multisig's members edit the multisig by hand,
\* with a payload that is not a signer-set nonce -- it belongs to no bridge event and takes no event nonce)
MntDeposit ==
    /\ mx.h < 14 /\ Len(mx.ref) < MaxDeposits
    /\ \E tok \in {"1", "12"}, amt \in DepAmts, fee \in DepFees, class \in {"ok", "feehigh", "notjson", "other", "edit"}, rch \in DepDests :
         LET h2 == mx.h + 1
             n  == Len(mx.ref) + 1
             ev == IF rch = "hub"
                   THEN [t |-> "ToHub", n |-> n, tok |-> tok, amt |-> amt, snd |-> "e7", rcv |-> "a3", eh |-> h2, txh |-> "x" \o ToString(cnt + 1)]
                   ELSE [t |-> "Deposit", n |-> n, tok |-> tok, amt |-> amt, fee |-> fee, snd |-> "e7", rch |-> rch, rcv |-> "e8", eh |-> h2, txh |-> "x" \o ToString(cnt + 1)]
         IN /\ class = "ok" => fee < amt - amt \div 100           \* a well-formed command
            /\ (rch = "hub" => fee = 0)
            /\ mx' = [mx EXCEPT !.h = h2, !.nonce = IF class = "edit" THEN @ + 1 ELSE @,
                                !.cust = IF class \in {"other", "edit"} THEN @ ELSE Put(@, tok, Get(@, tok, 0) + amt),
                                !.ref = IF class = "ok" THEN Append(@, ev) ELSE @]
            /\ Rec([k |-> "MntDeposit", i |-> 0, user |-> "e7", tok |-> tok, amt |-> amt, fee |-> fee, class |-> class, rch |-> rch,
                    rcv |-> IF rch = "hub" THEN "a3" ELSE "e8"])
    /\ UNCHANGED <<hub, g, xw, cn, down>> /\ bad' = {}

MntMine ==
    /\ mx.h < 14
    /\ mx' = [mx EXCEPT !.h = @ + 2] /\ Rec([k |-> "MntMine", i |-> 0, n |-> 2])
    /\ UNCHANGED <<hub, g, xw, cn, down>> /\ bad' = {}

\* ---------------------------------------------------------------- the connectors
Orch(v) == LET os == {o \in DOMAIN hub.ch[MC].ov : hub.ch[MC].ov[o] = v} IN IF os = {} THEN v ELSE CHOOSE o \in os : TRUE
TxOf(v, acts) == IF Len(acts) = 1 THEN acts[1] ELSE [k |-> "Tx", i |-> 0, by |-> Orch(v), msgs |-> acts]

\* numbering by the connector's own counters
Numbered(cur, evs) ==
    [i \in DOMAIN evs |->
        LET e == [evs[i] EXCEPT !.n = cur.ev + i - 1] IN
        IF e.t = "Exec" THEN [e EXCEPT !.bn = cur.bat + Len(SelectSeq(SubSeq(evs, 1, i - 1), LAMBDA x : x.t = "Exec"))] ELSE e]
Advance(cur, evs, to) ==
    LET vs == SelectSeq(evs, LAMBDA e : e.t = "SSExec") IN
    [blk |-> to, ev |-> cur.ev + Len(evs), bat |-> cur.bat + Len(SelectSeq(evs, LAMBDA e : e.t = "Exec")),
     vs |-> IF vs = <<>> THEN cur.vs ELSE vs[Len(vs)].ssn]

ScanOf(v) ==
    LET evs  == ScanClaims(mx, cn[v])
        acts == [i \in DOMAIN evs |-> [k |-> "Claim", i |-> 0, by |-> Orch(v), chain |-> MC, ev |-> Numbered(cn[v], evs)[i]]]
    IN /\ cn[v].blk < mx.h /\ Len(evs) <= 10 /\ v \notin down
       /\ Hidden(IF evs = <<>> THEN <<>> ELSE <<TxOf(v, acts)>>, [k |-> "ConnScan", i |-> 0, by |-> v])
       /\ cn' = [cn EXCEPT ![v] = Advance(cn[v], evs, ScanTo(mx, cn[v]))]
ConnScan == hub.inb /\ (\E v \in Vals : ScanOf(v)) /\ UNCHANGED <<mx, xw, down>>

\* all three connectors scan (one model step, three script actions): keeps attestation likely in simulation
ScanAll ==
    /\ hub.inb /\ down = {} /\ \A v \in Vals : cn[v].blk < mx.h /\ Len(ScanClaims(mx, cn[v])) \in 1..10
    /\ LET order == <<"v1", "v2", "v3">>
           F[k \in 0..3] ==
             IF k = 0 THEN [s |-> hub, g |-> g, bad |-> {}]
             ELSE LET p == F[k - 1]
                      v == order[k]
                      evs == ScanClaims(mx, cn[v])
                      acts == [i \in DOMAIN evs |-> [k |-> "Claim", i |-> 0, by |-> Orch(v), chain |-> MC, ev |-> Numbered(cn[v], evs)[i]]]
                      act == [TxOf(v, acts) EXCEPT !.i = cnt + k]
                      r == Step(p.s, act)
                      res == [out |-> r.out, id |-> r.id]
                  IN [s |-> r.s, g |-> GhostNext(p.g, p.s, act, res, r.s), bad |-> p.bad \cup StepChecks(p.g, p.s, act, res, r.s) \cup C01Step(p.s, act, r.s)]
       IN /\ hub' = F[3].s /\ g' = F[3].g /\ bad' = F[3].bad
          /\ hist' = IF KeepHist THEN hist \o [k \in 1..3 |-> [k |-> "ConnScan", i |-> cnt + k, by |-> order[k]]] ELSE hist
          /\ cnt' = cnt + 3
    /\ cn' = [v \in Vals |-> Advance(cn[v], ScanClaims(mx, cn[v]), ScanTo(mx, cn[v]))]
    /\ UNCHANGED <<mx, xw, down>>

\* the addresses the hub attributes the stored confirmations of tx to
ConfOf(s, tx) == {s.ch[MC].ve[w] : w \in {w \in DOMAIN SigsOf(s, MC, tx) : Has(s.ch[MC].ve, w)}}
OrchIn(s, v) == LET os == {o \in DOMAIN s.ch[MC].ov : s.ch[MC].ov[o] = v} IN IF os = {} THEN v ELSE CHOOSE o \in os : TRUE
EligibleIn(s, v) == SignerVal(s, MC, OrchIn(s, v)) = v /\ Has(s.ch[MC].ve, v)

BatTx(b) == [t |-> "bat", tok |-> b.tok, n |-> b.n]
SsTx(x)  == [t |-> "ss", n |-> x.n]
ConfirmActsIn(s, v, txs) == [i \in DOMAIN txs |-> [k |-> "Confirm", i |-> 0, by |-> OrchIn(s, v), chain |-> MC, tx |-> txs[i], ext |-> s.ch[MC].ve[v], key |-> "?"]]
TxIn(s, v, acts) == IF Len(acts) = 1 THEN acts[1] ELSE [k |-> "Tx", i |-> 0, by |-> OrchIn(s, v), msgs |-> acts]

\* one hub step inside a connector pass, with the history variables
HStep(st, act) ==
    LET r == Step(st.hub, act)
        res == [out |-> r.out, id |-> r.id]
    IN [st EXCEPT !.hub = r.s, !.g = GhostNext(st.g, st.hub, act, res, r.s),
                  !.bad = @ \cup StepChecks(st.g, st.hub, act, res, r.s) \cup C01Step(st.hub, act, r.s)]

\* relayBatches of validator v's connector on st = [hub, g, bad, mx, did]
BatF(st, v, cur, stepNo) ==
    LET todo == SetToSeq({BatTx(b) : b \in {b \in st.hub.ch[MC].bat : ~Has(SigsOf(st.hub, MC, BatTx(b)), v)}})
        st1  == IF todo = <<>> THEN st ELSE HStep(st, [TxIn(st.hub, v, ConfirmActsIn(st.hub, v, todo)) EXCEPT !.i = stepNo])
        want == BatchToRelay(st1.hub, cur, LAMBDA tx : ConfOf(st1.hub, tx))
    IN IF ~EligibleIn(st.hub, v) \/ Len(todo) > 10 THEN st
       ELSE IF want = <<>> THEN [st1 EXCEPT !.did = @ \/ todo # <<>>]
       ELSE LET b == want[1]
                signers == ConfOf(st1.hub, BatTx(b)) \cap MsigMembers(st.mx)
                paid == SumOver(b.txs, LAMBDA tr : tr.a)
                ok == MsigAccepts(st.mx, b.seq, signers) /\ Get(st.mx.cust, b.tok, 0) >= paid
            IN [st1 EXCEPT !.did = TRUE,
                           !.mx = IF ~ok THEN @
                                  ELSE [@ EXCEPT !.h = @ + 1, !.nonce = @ + 1, !.cust = Put(@, b.tok, Get(@, b.tok, 0) - paid),
                                                 !.ref = Append(@, [t |-> "Exec", n |-> Len(st.mx.ref) + 1, tok |-> b.tok, bn |-> b.n, eh |-> st.mx.h + 1,
                                                                    txh |-> "x" \o ToString(stepNo), fp |-> 0, fpr |-> ""])]]

\* relayValsets
ValF(st, v, cur, stepNo) ==
    LET todo == SetToSeq({SsTx(x) : x \in {x \in st.hub.ch[MC].ss : ~Has(SigsOf(st.hub, MC, SsTx(x)), v)}})
        st1  == IF todo = <<>> THEN st ELSE HStep(st, [TxIn(st.hub, v, ConfirmActsIn(st.hub, v, todo)) EXCEPT !.i = stepNo])
        want == SetToRelay(st1.hub, cur, LAMBDA tx : ConfOf(st1.hub, tx))
    IN IF ~EligibleIn(st.hub, v) \/ Len(todo) > 10 THEN st
       ELSE IF want = <<>> THEN [st1 EXCEPT !.did = @ \/ todo # <<>>]
       ELSE LET x == want[1]
                signers == ConfOf(st1.hub, SsTx(x)) \cap MsigMembers(st.mx)
                ed == ValsetEdit(x)
            IN [st1 EXCEPT !.did = TRUE,
                           !.mx = IF ~MsigAccepts(st.mx, x.seq, signers) THEN @
                                  ELSE [@ EXCEPT !.h = @ + 1, !.nonce = @ + 1, !.m = ed.m, !.thr = ed.thr,
                                                 !.ref = Append(@, [t |-> "SSExec", n |-> Len(st.mx.ref) + 1, ssn |-> x.n, eh |-> st.mx.h + 1,
                                                                    m |-> [i \in DOMAIN ed.m |-> <<ed.m[i][1], <<0, ed.m[i][2]>>>>], txh |-> "x" \o ToString(stepNo)])]]

St0 == [hub |-> hub, g |-> g, bad |-> {}, mx |-> mx, did |-> FALSE]
Commit(st) == hub' = st.hub /\ g' = st.g /\ bad' = st.bad /\ mx' = st.mx

ConnBatches ==
    /\ hub.inb
    /\ \E v \in Vals \ down : LET st == BatF(St0, v, cn[v], cnt + 1) IN st.did /\ Commit(st) /\ Rec([k |-> "ConnBatches", i |-> 0, by |-> v])
    /\ UNCHANGED <<cn, xw, down>>
ConnValsets ==
    /\ hub.inb
    /\ \E v \in Vals \ down : LET st == ValF(St0, v, cn[v], cnt + 1) IN st.did /\ Commit(st) /\ Rec([k |-> "ConnValsets", i |-> 0, by |-> v])
    /\ UNCHANGED <<cn, xw, down>>

\* every connector runs the pass, one after the other (three script actions)
Order3 == <<"v1", "v2", "v3">>
AllOf(F(_, _, _, _), kind) ==
    LET G[k \in 0..3] == IF k = 0 THEN St0 ELSE F(G[k - 1], Order3[k], cn[Order3[k]], cnt + k)
    IN /\ G[3].did /\ Commit(G[3])
       /\ hist' = IF KeepHist THEN hist \o [k \in 1..3 |-> [k |-> kind, i |-> cnt + k, by |-> Order3[k]]] ELSE hist
       /\ cnt' = cnt + 3
BatchesAll == hub.inb /\ down = {} /\ hub.ch[MC].bat # {} /\ AllOf(BatF, "ConnBatches") /\ UNCHANGED <<cn, xw, down>>
ValsetsAll == hub.inb /\ down = {} /\ AllOf(ValF, "ConnValsets") /\ UNCHANGED <<cn, xw, down>>

\* a connector process starts again from its status file (the model keeps memory and file equal: passes persist at their end)
ConnRestart ==
    /\ \E v \in Vals :
         /\ SignerVal(hub, MC, Orch(v)) = v
         /\ LET ack == LastNonceOf(hub, MC, v)
                to  == ResyncTo(mx, cn[v], ack)
            IN cn' = [cn EXCEPT ![v] = Advance(cn[v], RefBetween(mx, cn[v].blk, to), to)]
         /\ Rec([k |-> "ConnRestart", i |-> 0, by |-> v])
         /\ down' = down \ {v}
    /\ UNCHANGED <<hub, g, xw, mx>> /\ bad' = {}

\* a connector is set up anew: no status file, the configuration names a start block and the nonces that go with it
ConnReinit ==
    /\ \E v \in Vals, b \in {0, mx.h \div 2, mx.h} :
         /\ SignerVal(hub, MC, Orch(v)) = v
         /\ LET start == CursorAt(mx, b)
                ack   == LastNonceOf(hub, MC, v)
                to    == ResyncTo(mx, start, ack)
            IN cn' = [cn EXCEPT ![v] = Advance(start, RefBetween(mx, b, to), to)]
         /\ Rec([k |-> "ConnReinit", i |-> 0, by |-> v, at |-> b])
         /\ down' = down \ {v}
    /\ UNCHANGED <<hub, g, xw, mx>> /\ bad' = {}

\* a pass of relayMinterEvents that is killed while it hands its claims to the hub ("after": the hub has committed them,
\* "before": they never arrived).  The status file keeps what the pass had persisted: the leading blocks without events.
\* The process is down until it is started again (ConnRestart).
CrashOf(v, when) ==
    LET evs  == ScanClaims(mx, cn[v])
        acts == [i \in DOMAIN evs |-> [k |-> "Claim", i |-> 0, by |-> Orch(v), chain |-> MC, ev |-> Numbered(cn[v], evs)[i]]]
        firstEv == Min({e.eh : e \in RangeOf(evs)})
    IN /\ cn[v].blk < mx.h /\ Len(evs) \in 1..10 /\ v \notin down
       /\ Hidden(IF when = "after" THEN <<TxOf(v, acts)>> ELSE <<>>, [k |-> "ConnCrashScan", i |-> 0, by |-> v, when |-> when])
       /\ cn' = [cn EXCEPT ![v].blk = firstEv - 1]
       /\ down' = down \cup {v}
ConnCrashScan == hub.inb /\ (\E v \in Vals, when \in {"after", "before"} : CrashOf(v, when)) /\ UNCHANGED <<mx, xw>>

HubOnly(A) == A /\ UNCHANGED <<mx, cn, down>>

\* a withdrawal to Minter by a user who holds enough vouchers (they come from attested Minter deposits)
SendBatchM == (\E d \in Denoms : hub.bal["a3"][d] >= 104) /\ SendBatch

SendM == (\E d \in Denoms : hub.bal["a3"][d] >= 104) /\ Send

MinterKinds == {"Begin", "NextBlock", "NextBlock2", "SendBatch", "Send", "StakeChange", "MntDeposit", "MntDeposit2", "MntMine", "ConnScan", "ScanAll", "ScanAll2",
                "ConnBatches", "BatchesAll", "ConnValsets", "ValsetsAll", "ConnRestart", "ConnCrashScan", "ConnReinit"}
MinterAction(kind) ==
    CASE kind \in {"MntDeposit", "MntDeposit2"} -> MntDeposit [] kind = "MntMine" -> MntMine [] kind = "ConnScan" -> ConnScan
      [] kind \in {"ScanAll", "ScanAll2"} -> ScanAll
      [] kind = "ConnBatches" -> ConnBatches [] kind = "ConnValsets" -> ConnValsets [] kind = "ConnRestart" -> ConnRestart
      [] kind = "BatchesAll" -> BatchesAll [] kind = "ValsetsAll" -> ValsetsAll [] kind = "ConnCrashScan" -> ConnCrashScan [] kind = "ConnReinit" -> ConnReinit
      [] kind = "SendBatch" -> HubOnly(SendBatchM) [] kind = "Send" -> HubOnly(SendM) [] kind = "NextBlock2" -> HubOnly(NextBlock)
      [] OTHER -> HubOnly(ActionOf(kind))

NextM ==
    /\ cnt < MaxLen
    /\ IF ~TwoLevel THEN (\E kind \in MinterKinds : MinterAction(kind)) /\ pick' = ""
       ELSE IF pick = ""
       THEN /\ \E kind \in MinterKinds : ENABLED MinterAction(kind) /\ pick' = kind
            /\ UNCHANGED <<hub, xw, g, hist, bad, cnt, mx, cn, down>>
       ELSE MinterAction(pick) /\ pick' = ""

SpecM == InitM /\ [][NextM]_mvars
ViewM == <<hub, xw, g, bad, mx, cn, down>>

\* ---------------------------------------------------------------- design-level invariants
\* C20: every connector's cursor is consistent with the reference numbering
CursorsConsistent == (\A v \in Vals : CursorConsistent(mx, cn[v])) \/ (DumpCex /\ FALSE)
\* C20 / C08: whatever the hub has applied or recorded for a Minter nonce is the reference event of that nonce
VotesAreReference == (\A r \in hub.ch[MC].votes : r.n <= Len(mx.ref) /\ r.ev = mx.ref[r.n]) \/ (DumpCex /\ FALSE)
\* C08: the hub never runs ahead of the Minter chain and agrees with it once every event is applied
InStepM ==
    \/ /\ hub.ch[MC].lon <= Len(mx.ref)
       /\ \A e \in ExecutedRefs(mx, hub.ch[MC].lon) : ~\E b \in hub.ch[MC].bat : b.tok = e.tok /\ b.n = e.bn
    \/ (DumpCex /\ FALSE)
\* C01: solvency against the multisig's balance
SolvencyM ==
    \/ Solvent(hub, [xw EXCEPT ![MC].cust = [t \in DOMAIN @ |-> Get(mx.cust, t, 0)],
                               ![MC].done = {<<e.tok, e.bn>> : e \in {e \in RangeOf(mx.ref) : e.t = "Exec"}}])
    \/ (DumpCex /\ FALSE)
=============================================================================
