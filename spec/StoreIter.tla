----------------------------- MODULE StoreIter -----------------------------
(***************************************************************************)
(* C05 (dead-lock part): the iterator lock protocol of the block's cache   *)
(* store (cosmos-sdk 0.45 cachekv over tm-db MemDB) and the bridge         *)
(* module's iteration patterns.                                            *)
(*                                                                         *)
(*  - The cache keeps its sorted dirty entries in a MemDB guarded by a     *)
(*    read/write lock.  A MemDB iterator is a producer goroutine that      *)
(*    takes the READ lock and pushes the entries of the range into a       *)
(*    channel of capacity B, keeping the lock until every entry is pushed. *)
(*  - Creating a cache iterator first moves the not-yet-sorted dirty       *)
(*    entries (writes since the last iterator) into the MemDB: that needs  *)
(*    the WRITE lock iff there are such entries.                           *)
(*  - A write (Set/Delete) only adds to the unsorted dirty set.            *)
(*                                                                         *)
(* Pattern "nested" (refundExpiredTxs before 47caf57): for every expired   *)
(* entry met by the outer iterator, open a second iterator over the pool,  *)
(* close it, delete the entry.  Pattern "collect" (after the fix): finish  *)
(* and close the outer iterator, then do the same per expired entry.       *)
(* TLC's deadlock check decides whether the block processing can hang.     *)
(***************************************************************************)
EXTENDS Integers, FiniteSets, TLC

CONSTANTS B,        \* channel capacity of a MemDB iterator (64 in tm-db)
          N,        \* dirty pool entries in the iterated range
          E,        \* how many of them are expired (they come first)
          Pattern   \* "nested" | "collect"

VARIABLES readers,  \* number of producer goroutines holding the read lock
          unsorted, \* TRUE iff there are dirty entries not yet moved into the MemDB
          outer,    \* outer iterator: [left (not yet pushed), buf (in the channel), open]
          seen,     \* entries consumed from the outer iterator
          todo,     \* expired entries still to refund
          pc
vars == <<readers, unsorted, outer, seen, todo, pc>>

Init == /\ readers = 0 /\ unsorted = TRUE      \* the entries were written in this block
        /\ outer = [left |-> 0, buf |-> 0, open |-> FALSE]
        /\ seen = 0 /\ todo = 0 /\ pc = "open_outer"

\* creating a cache iterator: needs the write lock iff unsorted entries exist; a write lock needs readers = 0
CanCreate == ~unsorted \/ readers = 0

\* main goroutine -------------------------------------------------------------------------
OpenOuter == /\ pc = "open_outer" /\ CanCreate
             /\ unsorted' = FALSE
             /\ outer' = [left |-> N, buf |-> 0, open |-> TRUE]
             /\ readers' = IF N > 0 THEN readers + 1 ELSE readers     \* the producer starts and takes the read lock
             /\ pc' = "consume" /\ UNCHANGED <<seen, todo>>

\* take the next entry from the channel
Consume == /\ pc = "consume" /\ seen < N /\ outer.buf > 0
           /\ outer' = [outer EXCEPT !.buf = @ - 1]
           /\ seen' = seen + 1
           /\ pc' = (IF seen + 1 <= E /\ Pattern = "nested" THEN "nested_open" ELSE "consume")
           /\ todo' = IF seen + 1 <= E /\ Pattern = "collect" THEN todo + 1 ELSE todo
           /\ UNCHANGED <<readers, unsorted>>
Drained == /\ pc = "consume" /\ seen = N
           /\ outer' = [outer EXCEPT !.open = FALSE]
           /\ pc' = (IF Pattern = "collect" /\ todo > 0 THEN "late_open" ELSE "done")
           /\ UNCHANGED <<readers, unsorted, seen, todo>>

\* refund inside the loop: nested iterator (opened, drained and closed at once: it scans the whole pool into a slice), then delete
NestedOpen == /\ pc = "nested_open" /\ CanCreate /\ readers <= 1
              /\ unsorted' = FALSE /\ pc' = "nested_delete" /\ UNCHANGED <<readers, outer, seen, todo>>
NestedDelete == /\ pc = "nested_delete" /\ unsorted' = TRUE /\ pc' = "consume" /\ UNCHANGED <<readers, outer, seen, todo>>

\* refund after the loop
LateOpen == /\ pc = "late_open" /\ CanCreate
            /\ unsorted' = FALSE /\ pc' = "late_delete" /\ UNCHANGED <<readers, outer, seen, todo>>
LateDelete == /\ pc = "late_delete" /\ unsorted' = TRUE /\ todo' = todo - 1
              /\ pc' = (IF todo - 1 > 0 THEN "late_open" ELSE "done") /\ UNCHANGED <<readers, outer, seen>>

\* producer goroutine of the outer iterator -------------------------------------------------
Push == /\ outer.open /\ outer.left > 0 /\ outer.buf < B
        /\ outer' = [outer EXCEPT !.left = @ - 1, !.buf = @ + 1]
        /\ readers' = IF outer.left = 1 THEN readers - 1 ELSE readers    \* everything pushed: release the read lock
        /\ UNCHANGED <<unsorted, seen, todo, pc>>

Done == pc = "done" /\ UNCHANGED vars
Next == OpenOuter \/ Consume \/ Drained \/ NestedOpen \/ NestedDelete \/ LateOpen \/ LateDelete \/ Push \/ Done
Spec == Init /\ [][Next]_vars /\ WF_vars(Next)

Terminates == <>(pc = "done")
=============================================================================
