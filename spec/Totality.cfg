SPECIFICATION Spec
INVARIANT WellFormed
CHECK_DEADLOCK FALSE
