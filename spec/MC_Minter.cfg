SPECIFICATION SpecM
CONSTANTS
  UseStaticCfg = TRUE
  StaticCfg <- DefaultCfg
  Dev = {"RefundTruncatedDust"}
  Family = "minter"
  MaxLen = 6
  Amts = {101}
  Fees = {3}
  Users = {"a3"}
  SendChains = {"minter"}
  Denoms = {"hub"}
  DepChains = {"minter"}
  DepDests = {"hub"}
  MaxSends = 3
  MaxDeposits = 3
  MaxBlocks = 30
  Orchs = {"o1", "o2", "o3"}
  Exts = {"e1", "e2", "e3"}
  KeyChains = {"minter"}
  KeyVariants = {"good"}
  DepAmts = {400}
  DepFees = {0}
  WithKeysAndPrices = TRUE
  FeePaids = {1}
  StakePowers = {1, 3}
  WatchNames = {}
  KeepHist = FALSE
  TwoLevel = FALSE
  EmitScripts = FALSE
VIEW ViewM
INVARIANT CursorsConsistent
INVARIANT VotesAreReference
INVARIANT InStepM
INVARIANT SolvencyM
CHECK_DEADLOCK FALSE
