SPECIFICATION Spec
CONSTANTS
  OracleDev = {}
  MaxLen = 60
  HubPrices = {4, 8, 12, 40}
  Claimers = {"v1", "v2", "v3", "a1"}
  KeepHist = TRUE
  TwoLevel = TRUE
  EmitScripts = TRUE
CONSTRAINT Emit
INVARIANT NoC18Violation
CHECK_DEADLOCK FALSE
