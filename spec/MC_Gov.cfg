SPECIFICATION Spec
CONSTANTS
  UseStaticCfg = TRUE
  StaticCfg <- DefaultCfg
  Dev = {"RefundTruncatedDust"}
  Family = "gov"
  MaxLen = 8
  Amts = {10, 101}
  Fees = {0, 3}
  Users = {"a1"}
  SendChains = {"ethereum"}
  Denoms = {"usd"}
  DepChains = {"minter"}
  DepDests = {"hub", "ethereum"}
  MaxSends = 2
  MaxDeposits = 1
  MaxBlocks = 3
  Orchs = {"o1", "o2"}
  Exts = {"e1", "e2"}
  KeyChains = {"ethereum"}
  KeyVariants = {"good", "wrongkey"}
  DepAmts = {40}
  DepFees = {0, 2}
  WithKeysAndPrices = FALSE
  FeePaids = {1}
  StakePowers = {0, 1, 2, 3}
  WatchNames = {}
  KeepHist = FALSE
  TwoLevel = FALSE
  EmitScripts = FALSE
VIEW View
INVARIANT NoStepViolation
INVARIANT Solvency
CHECK_DEADLOCK FALSE
