------------------------------- MODULE Minter -------------------------------
(***************************************************************************)
(* The Minter side of the bridge.                                          *)
(*                                                                         *)
(* The Minter chain holds the bridge's multisig account: members with      *)
(* integer weights, a threshold, a transaction count.  A transaction of    *)
(* the multisig is accepted iff its nonce is the account's next one and    *)
(* the weights of the distinct members that signed it reach the threshold. *)
(* (An assumption about the Minter node, see DESIGN.md.)                   *)
(*                                                                         *)
(* A Minter chain state is  mx = [h, nonce, m, thr, cust, ref]  with       *)
(*   m    <<<<address, weight>>, ..>>   the multisig's members             *)
(*   ref  the bridge events of the chain in chain order, in the hub's      *)
(*        event format, numbered 1, 2, ..  (the REFERENCE numbering every  *)
(*        validator's connector must reproduce, C20)                       *)
(*                                                                         *)
(* The connector (minter-connector/cmd/mhub-minter-connector/main.go),     *)
(* one per validator, keeps a cursor [blk, ev, bat, vs] = last checked     *)
(* block, NEXT event nonce, NEXT batch nonce, last valset nonce and        *)
(*   relayMinterEvents  reports the bridge events of the blocks after the  *)
(*                      cursor, numbering them from cursor.ev,             *)
(*   relayBatches       confirms every batch it has not signed with a      *)
(*                      signature over the Minter transaction that pays    *)
(*                      the batch out, then submits the signed batch with  *)
(*                      the lowest sequence number,                        *)
(*   relayValsets       the same for signer sets (multisig edits).         *)
(* The operators below say what each of these must produce, given what the *)
(* connector can see; the trace specification compares them with what the  *)
(* REAL functions did.                                                     *)
(***************************************************************************)
EXTENDS Hub

MC == "minter"
MinterThreshold == 667

\* ---------------------------------------------------------------- weights
\* three-limb (base 65536) products of a two-limb number and a small factor (TLC integers are 32 bit)
Mul3(x, k) == LET a == x[2] * k
                  b == x[1] * k + a \div 65536
              IN <<b \div 65536, b % 65536, a % 65536>>
Less3(a, b) == a[1] < b[1] \/ (a[1] = b[1] /\ (a[2] < b[2] \/ (a[2] = b[2] /\ a[3] < b[3])))
\* weight of a member = floor(power * 1000 / total power of the set)
WeightOf(p, T) ==
    IF T = <<0, 0>> THEN 0
    ELSE CHOOSE w \in 0..1000 : ~Less3(Mul3(p, 1000), Mul3(T, w)) /\ Less3(Mul3(p, 1000), Mul3(T, w + 1))
TotalPower(m) == FoldLeft(LAMBDA acc, x : LAdd(acc, x[2]), <<0, 0>>, m)
ValsetWeights(m) == [i \in DOMAIN m |-> <<m[i][1], WeightOf(m[i][2], TotalPower(m))>>]

\* ---------------------------------------------------------------- the multisig
MsigMembers(mx) == {mx.m[i][1] : i \in DOMAIN mx.m}
MsigWeight(mx, a) == LET hits == {i \in DOMAIN mx.m : mx.m[i][1] = a} IN IF hits = {} THEN 0 ELSE mx.m[CHOOSE i \in hits : TRUE][2]
SignedWeight(mx, signers) == FoldSet(LAMBDA a, acc : acc + MsigWeight(mx, a), 0, signers)
MsigAccepts(mx, nonce, signers) ==
    /\ nonce = mx.nonce + 1
    /\ Cardinality(signers) <= Len(mx.m)
    /\ SignedWeight(mx, signers) >= mx.thr

\* ---------------------------------------------------------------- the Minter transactions of outgoing hub txs
\* a batch is paid out by a multisend: (coin, recipient, amount) per transfer, in the batch's order
BatchItems(b) == [i \in DOMAIN b.txs |-> <<b.tok, b.txs[i].d, b.txs[i].a>>]
\* a signer set is installed by a multisig edit: members with their weights, threshold 667, payload = the set's nonce
ValsetEdit(ss) == [m |-> ValsetWeights(ss.m), thr |-> MinterThreshold, payload |-> ToString(ss.n)]

\* ---------------------------------------------------------------- the reference numbering (C20)
RefUpTo(mx, b) == SelectSeq(mx.ref, LAMBDA e : e.eh <= b)
RefBetween(mx, lo, hi) == SelectSeq(mx.ref, LAMBDA e : lo < e.eh /\ e.eh <= hi)
LastValsetUpTo(mx, b) ==
    LET vs == SelectSeq(RefUpTo(mx, b), LAMBDA e : e.t = "SSExec") IN IF vs = <<>> THEN 0 ELSE vs[Len(vs)].ssn
\* the cursor of a connector that has checked exactly the blocks 1..b
CursorAt(mx, b) ==
    [blk |-> b, ev |-> 1 + Len(RefUpTo(mx, b)), bat |-> 1 + Len(SelectSeq(RefUpTo(mx, b), LAMBDA e : e.t = "Exec")), vs |-> LastValsetUpTo(mx, b)]
CursorOf(c) == [blk |-> c.blk, ev |-> c.ev, bat |-> c.bat, vs |-> c.vs]
CursorConsistent(mx, c) == c.blk <= mx.h /\ CursorOf(c) = CursorAt(mx, c.blk)

\* relayMinterEvents: at most 100 blocks per pass
ScanTo(mx, cur) == IF mx.h - cur.blk > 100 THEN cur.blk + 100 ELSE mx.h
ScanClaims(mx, cur) == RefBetween(mx, cur.blk, ScanTo(mx, cur))

\* GetLatestMinterBlockAndNonce(cursor from the status file, ack = last event nonce the hub has from this validator):
\* scan forward; stop in front of the block that holds the first event the hub has not acknowledged
ResyncTo(mx, cur, ack) ==
    IF ack = 0 THEN mx.h
    ELSE LET later == {e.eh : e \in {e \in RangeOf(mx.ref) : e.eh > cur.blk /\ e.n > ack}}
         IN IF later = {} THEN mx.h ELSE Min(later) - 1

\* ---------------------------------------------------------------- what a relay pass must submit
\* conf(tx): the external addresses the hub's confirmation query attributes signatures of tx to
SignedBatches(s, conf(_)) == {b \in s.ch[MC].bat : conf([t |-> "bat", tok |-> b.tok, n |-> b.n]) # {}}
BatchToRelay(s, cur, conf(_)) ==
    LET signed == SignedBatches(s, conf) IN
    IF signed = {} THEN <<>>
    ELSE LET b == CHOOSE b \in signed : \A o \in signed : b.seq <= o.seq
         IN IF b.n < cur.bat THEN <<>> ELSE <<b>>
SignedSets(s, conf(_)) == {x \in s.ch[MC].ss : conf([t |-> "ss", n |-> x.n]) # {}}
SetToRelay(s, cur, conf(_)) ==
    LET above == {x \in SignedSets(s, conf) : x.n > cur.vs} IN
    IF above = {} THEN <<>> ELSE <<CHOOSE x \in above : \A o \in above : x.n <= o.n>>

\* ---------------------------------------------------------------- in step (C08)
ExecutedRefs(mx, upTo) == {e \in RangeOf(mx.ref) : e.t = "Exec" /\ e.n <= upTo}
=============================================================================
