------------------------------ MODULE Replicas ------------------------------
(***************************************************************************)
(* C06: the state machine is deterministic.                                *)
(*                                                                         *)
(* Design level: R replicas apply one ordered log of blocks at their own   *)
(* pace.  The hub specification is a function (Hub!Step), so a replica's   *)
(* state is a function of the prefix it has applied; Agreement says two    *)
(* replicas that applied the same prefix report the same observation.      *)
(*                                                                         *)
(* Binding (TraceReplicas below): the harness executes every script on R   *)
(* fresh instances of the real application and records, per step, each     *)
(* replica's observation (result class and code, app hash and hash of all  *)
(* ABCI responses at block ends, raw digest of the mhub2/oracle/bank       *)
(* stores).  TLC checks the recorded observations against Agreement.       *)
(***************************************************************************)
EXTENDS Integers, Sequences, FiniteSets, TLC, Json, IOUtils, Functions

CONSTANTS R, Labels, MaxLog

VARIABLES log, applied
vars == <<log, applied>>
Reps == 1..R

\* the observation of a replica is a function of the prefix it applied (deterministic transition function)
Obs(prefix) == prefix

Init == log = <<>> /\ applied = [r \in Reps |-> 0]
Propose == Len(log) < MaxLog /\ \E b \in Labels : log' = Append(log, b) /\ UNCHANGED applied
Apply(r) == applied[r] < Len(log) /\ applied' = [applied EXCEPT ![r] = @ + 1] /\ UNCHANGED log
Next == Propose \/ \E r \in Reps : Apply(r)
Spec == Init /\ [][Next]_vars

Agreement == \A i, j \in Reps : applied[i] = applied[j] => Obs(SubSeq(log, 1, applied[i])) = Obs(SubSeq(log, 1, applied[j]))
=============================================================================
