// Package mnt is an executable model of the Minter side of the bridge: a block chain that holds the bridge's
// multisig account (members, weights, threshold, transaction count), the coins it keeps in custody and the
// transactions that matter to the bridge.  It serves the subset of the Minter node API the connector uses
// (/status, /blocks, /address/{a}, /send_transaction/{tx}) and decides multisig transactions the way the Minter
// node does: the transaction nonce must be the account's next one, every signature is recovered over the
// transaction hash, duplicates are refused and the weights of the signing members must reach the threshold.
//
// It is part of the verification environment (an assumption about Minter, stated in DESIGN.md), not code under test.
package mnt

import (
	"crypto/sha256"
	"encoding/base64"
	"encoding/hex"
	"encoding/json"
	"fmt"
	"math/big"
	"net/http"
	"strconv"
	"strings"
	"sync"

	"github.com/MinterTeam/minter-go-sdk/v2/transaction"
)

// Item is one output of a multisend.
type Item struct {
	Coin  uint64
	To    string // Mx...
	Value *big.Int
}

// Tx is a transaction recorded in a block.
type Tx struct {
	Hash    string
	Type    int // 1 send, 13 multisend, 18 edit multisig
	From    string
	Payload []byte
	// send
	To    string
	Coin  uint64
	Value *big.Int
	// multisend
	Items []Item
	// edit multisig
	Threshold uint64
	Weights   []uint64
	Addresses []string
	Nonce     uint64
}

// Submission is the record of one /send_transaction call.
type Submission struct {
	Raw      string
	Type     int
	Nonce    uint64
	Sender   string
	Signers  []string
	Payload  string
	Items    []Item
	Weights  []uint64
	Addrs    []string
	Thr      uint64
	Accepted bool
	Reason   string
	Height   uint64
	Hash     string
	DecodeOk bool
}

// Chain is the simulated Minter chain.
type Chain struct {
	mu        sync.Mutex
	Multisig  string // Mx...
	Blocks    [][]Tx
	Addresses []string // multisig members, Mx...
	Weights   []uint64
	Threshold uint64
	TxCount   uint64
	Cust      map[uint64]*big.Int
	Subs      []Submission
	OnSubmit  func(*Submission) // called (under the lock) for every submission
}

func New(multisig string, addrs []string, weights []uint64, threshold uint64) *Chain {
	return &Chain{Multisig: multisig, Addresses: addrs, Weights: weights, Threshold: threshold, Cust: map[uint64]*big.Int{}}
}

func (c *Chain) Head() uint64 { c.mu.Lock(); defer c.mu.Unlock(); return uint64(len(c.Blocks)) }

func txHash(height uint64, idx int) string {
	h := sha256.Sum256([]byte(fmt.Sprintf("minter-tx-%d-%d", height, idx)))
	return "Mt" + hex.EncodeToString(h[:])
}

// BumpTxCount takes the multisig's next transaction nonce (a transaction of the multisig made outside the bridge).
func (c *Chain) BumpTxCount() uint64 { c.mu.Lock(); defer c.mu.Unlock(); c.TxCount++; return c.TxCount }

// Mine appends n empty blocks.
func (c *Chain) Mine(n int) {
	c.mu.Lock()
	defer c.mu.Unlock()
	for i := 0; i < n; i++ {
		c.Blocks = append(c.Blocks, nil)
	}
}

// AddBlock appends a block with the given user transactions (hashes are assigned) and returns its height.
func (c *Chain) AddBlock(txs []Tx) (uint64, []Tx) {
	c.mu.Lock()
	defer c.mu.Unlock()
	return c.addBlockLocked(txs)
}

func (c *Chain) addBlockLocked(txs []Tx) (uint64, []Tx) {
	h := uint64(len(c.Blocks) + 1)
	for i := range txs {
		txs[i].Hash = txHash(h, i)
		if txs[i].Type == 1 && strings.EqualFold(txs[i].To, c.Multisig) {
			cur := c.Cust[txs[i].Coin]
			if cur == nil {
				cur = new(big.Int)
			}
			c.Cust[txs[i].Coin] = new(big.Int).Add(cur, txs[i].Value)
		}
	}
	c.Blocks = append(c.Blocks, txs)
	return h, txs
}

func (c *Chain) weightOf(addr string) uint64 {
	for i, a := range c.Addresses {
		if strings.EqualFold(a, addr) {
			return c.Weights[i]
		}
	}
	return 0
}

// submit decides a raw transaction.
func (c *Chain) submit(raw string) *Submission {
	s := &Submission{Raw: raw}
	signed, err := transaction.Decode(raw)
	if err != nil {
		s.Reason = "decode: " + err.Error()
		return s
	}
	t := signed.GetTransaction()
	s.DecodeOk = true
	s.Type = int(t.Type)
	s.Nonce = t.Nonce
	s.Payload = string(t.Payload)
	sender, err := signed.SenderAddress()
	if err != nil {
		s.Reason = "sender: " + err.Error()
		return s
	}
	s.Sender = sender
	signers, err := signed.Signers()
	if err != nil {
		s.Reason = "signers: " + err.Error()
		return s
	}
	s.Signers = signers
	switch d := signed.Data().(type) {
	case *transaction.MultisendData:
		for _, it := range d.List {
			s.Items = append(s.Items, Item{Coin: uint64(it.Coin), To: it.To.String(), Value: new(big.Int).Set(it.Value)})
		}
	case *transaction.EditMultisigData:
		s.Thr = uint64(d.Threshold)
		for i := range d.Addresses {
			s.Addrs = append(s.Addrs, d.Addresses[i].String())
			s.Weights = append(s.Weights, uint64(d.Weights[i]))
		}
	default:
		s.Reason = "unsupported transaction type"
		return s
	}
	if t.SignatureType != transaction.SignatureTypeMulti || !strings.EqualFold(sender, c.Multisig) {
		s.Reason = "not a transaction of the bridge multisig"
		return s
	}
	if t.Nonce != c.TxCount+1 {
		s.Reason = fmt.Sprintf("wrong nonce: expected %d, got %d", c.TxCount+1, t.Nonce)
		return s
	}
	if len(signers) > len(c.Addresses) {
		s.Reason = "incorrect multi-signature"
		return s
	}
	seen := map[string]bool{}
	var total uint64
	for _, a := range signers {
		k := strings.ToLower(a)
		if seen[k] {
			s.Reason = "duplicated signer"
			return s
		}
		seen[k] = true
		total += c.weightOf(a)
	}
	if total < c.Threshold {
		s.Reason = fmt.Sprintf("not enough multisig votes: %d of %d", total, c.Threshold)
		return s
	}
	if s.Type == int(transaction.TypeMultisend) {
		need := map[uint64]*big.Int{}
		for _, it := range s.Items {
			if need[it.Coin] == nil {
				need[it.Coin] = new(big.Int)
			}
			need[it.Coin].Add(need[it.Coin], it.Value)
		}
		for coin, v := range need {
			if c.Cust[coin] == nil || c.Cust[coin].Cmp(v) < 0 {
				s.Reason = fmt.Sprintf("insufficient funds of coin %d", coin)
				return s
			}
		}
		for coin, v := range need {
			c.Cust[coin] = new(big.Int).Sub(c.Cust[coin], v)
		}
	}
	// accepted: a new block carries the transaction
	tx := Tx{Type: s.Type, From: c.Multisig, Payload: []byte(s.Payload), Nonce: t.Nonce, Items: s.Items, Threshold: s.Thr, Weights: s.Weights, Addresses: s.Addrs}
	h, txs := c.addBlockLocked([]Tx{tx})
	c.TxCount++
	if s.Type == int(transaction.TypeEditMultisig) {
		c.Addresses, c.Weights, c.Threshold = s.Addrs, s.Weights, s.Thr
	}
	s.Accepted = true
	s.Height = h
	s.Hash = txs[0].Hash
	return s
}

func coinJSON(id uint64) map[string]interface{} {
	return map[string]interface{}{"id": strconv.FormatUint(id, 10), "symbol": "C" + strconv.FormatUint(id, 10)}
}

func (c *Chain) txJSON(t Tx, height uint64, idx int) map[string]interface{} {
	j := map[string]interface{}{"hash": t.Hash, "height": strconv.FormatUint(height, 10), "from": t.From, "index": strconv.Itoa(idx),
		"type": strconv.Itoa(t.Type), "nonce": strconv.FormatUint(t.Nonce, 10), "payload": base64.StdEncoding.EncodeToString(t.Payload)}
	switch t.Type {
	case 1:
		j["data"] = map[string]interface{}{"@type": "type.googleapis.com/api_pb.SendData", "coin": coinJSON(t.Coin), "to": t.To, "value": t.Value.String()}
	case 13:
		list := []interface{}{}
		for _, it := range t.Items {
			list = append(list, map[string]interface{}{"coin": coinJSON(it.Coin), "to": it.To, "value": it.Value.String()})
		}
		j["data"] = map[string]interface{}{"@type": "type.googleapis.com/api_pb.MultiSendData", "list": list}
	case 18:
		ws := []string{}
		for _, w := range t.Weights {
			ws = append(ws, strconv.FormatUint(w, 10))
		}
		j["data"] = map[string]interface{}{"@type": "type.googleapis.com/api_pb.EditMultisigData", "threshold": strconv.FormatUint(t.Threshold, 10), "weights": ws, "addresses": t.Addresses}
	}
	return j
}

// ServeHTTP implements the part of the Minter node API (v2) the connector talks to.
func (c *Chain) ServeHTTP(w http.ResponseWriter, r *http.Request) {
	c.mu.Lock()
	defer c.mu.Unlock()
	w.Header().Set("Content-Type", "application/json")
	parts := strings.Split(strings.Trim(r.URL.Path, "/"), "/")
	// the client may be configured with a base path; look at the last segments
	last := parts[len(parts)-1]
	prev := ""
	if len(parts) > 1 {
		prev = parts[len(parts)-2]
	}
	switch {
	case last == "status":
		json.NewEncoder(w).Encode(map[string]interface{}{"latest_block_height": strconv.Itoa(len(c.Blocks)), "network": "verif"})
	case last == "blocks":
		from, _ := strconv.Atoi(r.URL.Query().Get("from_height"))
		to, _ := strconv.Atoi(r.URL.Query().Get("to_height"))
		blocks := []interface{}{}
		for h := from; h <= to && h <= len(c.Blocks); h++ {
			if h < 1 {
				continue
			}
			txs := []interface{}{}
			for i, t := range c.Blocks[h-1] {
				txs = append(txs, c.txJSON(t, uint64(h), i))
			}
			blocks = append(blocks, map[string]interface{}{"height": strconv.Itoa(h), "transactions": txs, "transaction_count": strconv.Itoa(len(txs))})
		}
		json.NewEncoder(w).Encode(map[string]interface{}{"blocks": blocks})
	case prev == "address":
		resp := map[string]interface{}{"balance": []interface{}{}, "delegated": []interface{}{}, "total": []interface{}{}, "transaction_count": "0", "bip_value": "0"}
		if strings.EqualFold(last, c.Multisig) {
			ws := []string{}
			for _, x := range c.Weights {
				ws = append(ws, strconv.FormatUint(x, 10))
			}
			resp["transaction_count"] = strconv.FormatUint(c.TxCount, 10)
			resp["multisig"] = map[string]interface{}{"addresses": c.Addresses, "weights": ws, "threshold": strconv.FormatUint(c.Threshold, 10)}
		}
		json.NewEncoder(w).Encode(resp)
	case prev == "send_transaction":
		s := c.submit(last)
		c.Subs = append(c.Subs, *s)
		if c.OnSubmit != nil {
			c.OnSubmit(s)
		}
		if s.Accepted {
			json.NewEncoder(w).Encode(map[string]interface{}{"code": "0", "hash": s.Hash, "log": ""})
		} else {
			json.NewEncoder(w).Encode(map[string]interface{}{"code": "1", "hash": "", "log": s.Reason})
		}
	default:
		w.WriteHeader(404)
		w.Write([]byte(`{"error":{"code":"404","message":"not found"}}`))
	}
}
