// vhconn replays Minter-loop scripts: real hub application + real connector functions + the Minter chain model.
//
//	vhconn -config <config.toml> run -scripts <in.ndjson> -out <trace.ndjson>
//
// The -config flag is consumed by the connector's own config package (it parses the command line when the
// package is initialised); everything after the first positional argument belongs to this program.
package main

import (
	"bufio"
	"flag"
	"fmt"
	"os"

	"verifharness/mworld"
	"verifharness/runner"
	"verifharness/world"
)

func main() {
	args := flag.Args() // the connector's config package has parsed the command line already
	if len(args) < 1 || args[0] != "run" {
		fmt.Fprintln(os.Stderr, "usage: vhconn -config <toml> run -scripts <file> -out <file>")
		os.Exit(2)
	}
	fs := flag.NewFlagSet("run", flag.ExitOnError)
	in := fs.String("scripts", "", "newline-delimited scripts")
	out := fs.String("out", "", "trace file")
	fs.Parse(args[1:])
	f, err := os.Open(*in)
	if err != nil {
		fmt.Fprintln(os.Stderr, err)
		os.Exit(2)
	}
	scripts, err := runner.ReadScripts(f)
	f.Close()
	if err != nil {
		fmt.Fprintln(os.Stderr, err)
		os.Exit(2)
	}
	of, err := os.Create(*out)
	if err != nil {
		fmt.Fprintln(os.Stderr, err)
		os.Exit(2)
	}
	bw := bufio.NewWriterSize(of, 1<<20)
	world.SetAddrCfg()
	dead, steps := 0, 0
	for _, s := range scripts {
		cfg := world.DefaultCfg()
		if s.Cfg != nil {
			cfg = *s.Cfg
		}
		mw, err := mworld.NewWith(cfg, s.Evm, bw)
		if err != nil {
			fmt.Fprintln(os.Stderr, "setup:", err)
			os.Exit(2)
		}
		first := world.J{"k": "reset", "id": s.Id, "family": s.Family, "cfg": runner.CfgJSON(cfg), "aux": mw.W.Aux(), "post": mw.Project()}
		mw.Emit(first)
		for i, a := range s.Acts {
			a["i"] = i + 1
			mw.Exec(i+1, a)
			steps++
			if mw.Infra != "" {
				fmt.Fprintln(os.Stderr, "infra:", mw.Infra)
				os.Exit(2)
			}
			if mw.W.Dead != "" {
				dead++
				break
			}
		}
		mw.Close()
	}
	bw.Flush()
	of.Close()
	fmt.Printf("scripts=%d steps=%d dead=%d\n", len(scripts), steps, dead)
}
