package main

import (
	"encoding/base64"
	"encoding/json"
	"flag"
	"fmt"
	"net/http"
	"net/http/httptest"
	"os"
	"path/filepath"
	"strconv"
	"sync"

	sdk "github.com/cosmos/cosmos-sdk/types"
	"github.com/tendermint/tendermint/libs/log"

	"github.com/MinterTeam/mhub2/minter-connector/command"
	"github.com/MinterTeam/mhub2/minter-connector/config"
	mctx "github.com/MinterTeam/mhub2/minter-connector/context"
	"github.com/MinterTeam/mhub2/minter-connector/minter"
	"github.com/MinterTeam/minter-go-sdk/v2/api/http_client"
)

const multisig = "Mx7072558b2b91e62dbed78e9a3453e5c9e01fec5e"
const other = "Mx1111111111111111111111111111111111111111"

// fakeMinter serves /status and /blocks of a scripted Minter block history.
type fakeMinter struct {
	mu    sync.Mutex
	chain [][]string // block -> tx classes
	head  int
}

func (f *fakeMinter) tx(kind string, height, idx int) map[string]interface{} {
	t := map[string]interface{}{"hash": fmt.Sprintf("Mt%04d%02d", height, idx), "height": strconv.Itoa(height), "from": other, "index": strconv.Itoa(idx)}
	payload := func(s string) string { return base64.StdEncoding.EncodeToString([]byte(s)) }
	send := func(to string) map[string]interface{} {
		return map[string]interface{}{"@type": "type.googleapis.com/api_pb.SendData", "coin": map[string]interface{}{"id": "1", "symbol": "HUB"}, "to": to, "value": "1000000"}
	}
	switch kind {
	case "D": // deposit with a well formed command
		t["type"] = "1"
		t["data"] = send(multisig)
		t["payload"] = payload(`{"type":"send_to_hub","recipient":"` + sdk.AccAddress(make([]byte, 20)).String() + `","fee":"0"}`)
	case "I": // deposit whose command is rejected (fee not below the amount)
		t["type"] = "1"
		t["data"] = send(multisig)
		t["payload"] = payload(`{"type":"send_to_hub","recipient":"` + sdk.AccAddress(make([]byte, 20)).String() + `","fee":"1000000"}`)
	case "J": // deposit with a payload that is not JSON
		t["type"] = "1"
		t["data"] = send(multisig)
		t["payload"] = payload(`hello`)
	case "O": // a send to somebody else
		t["type"] = "1"
		t["data"] = send(other)
		t["payload"] = payload(`{"type":"send_to_hub","recipient":"x","fee":"0"}`)
	case "B":
		t["type"] = "13"
		t["from"] = multisig
		t["data"] = map[string]interface{}{"@type": "type.googleapis.com/api_pb.MultiSendData", "list": []interface{}{
			map[string]interface{}{"coin": map[string]interface{}{"id": "1", "symbol": "HUB"}, "to": other, "value": "5"}}}
	case "V":
		t["type"] = "18"
		t["from"] = multisig
		t["payload"] = payload(strconv.Itoa(height*10 + idx))
		t["data"] = map[string]interface{}{"@type": "type.googleapis.com/api_pb.EditMultisigData", "threshold": "667", "weights": []string{"1000"}, "addresses": []string{other}}
	case "W":
		t["type"] = "18"
		t["from"] = multisig
		t["payload"] = payload("not-a-number")
		t["data"] = map[string]interface{}{"@type": "type.googleapis.com/api_pb.EditMultisigData", "threshold": "667", "weights": []string{"1000"}, "addresses": []string{other}}
	}
	return t
}

func (f *fakeMinter) ServeHTTP(w http.ResponseWriter, r *http.Request) {
	f.mu.Lock()
	defer f.mu.Unlock()
	w.Header().Set("Content-Type", "application/json")
	switch filepath.Base(r.URL.Path) {
	case "status":
		json.NewEncoder(w).Encode(map[string]interface{}{"latest_block_height": strconv.Itoa(f.head), "network": "verif"})
	case "blocks":
		from, _ := strconv.Atoi(r.URL.Query().Get("from_height"))
		to, _ := strconv.Atoi(r.URL.Query().Get("to_height"))
		blocks := []interface{}{}
		for h := from; h <= to && h <= f.head; h++ {
			if h < 1 {
				continue
			}
			txs := []interface{}{}
			for i, k := range f.chain[h-1] {
				txs = append(txs, f.tx(k, h, i))
			}
			blocks = append(blocks, map[string]interface{}{"height": strconv.Itoa(h), "transactions": txs, "transaction_count": strconv.Itoa(len(txs))})
		}
		json.NewEncoder(w).Encode(map[string]interface{}{"blocks": blocks})
	default:
		w.WriteHeader(404)
		w.Write([]byte(`{"error":{"code":"404","message":"not found"}}`))
	}
}

type cursor struct {
	Blk uint64 `json:"blk"`
	Ev  uint64 `json:"ev"`
	Bat uint64 `json:"bat"`
	Vs  uint64 `json:"vs"`
}

type connVector struct {
	Chain [][]string `json:"chain"`
	From  cursor     `json:"from"`
	Head  int        `json:"head"`
	Ack   uint64     `json:"ack"`
}

// cmdConnector runs the real LoadStatus -> GetLatestMinterBlockAndNonce on every vector and records the cursor
// the connector persisted.
func cmdConnector(args []string) {
	fs := flag.NewFlagSet("connector", flag.ExitOnError)
	in := fs.String("vectors", "", "JSON array of vectors")
	out := fs.String("out", "", "result file")
	fs.Parse(args)
	bz, err := os.ReadFile(*in)
	if err != nil {
		fmt.Fprintln(os.Stderr, err)
		os.Exit(2)
	}
	var vectors []connVector
	if err := json.Unmarshal(bz, &vectors); err != nil {
		fmt.Fprintln(os.Stderr, err)
		os.Exit(2)
	}
	fm := &fakeMinter{}
	srv := httptest.NewServer(fm)
	defer srv.Close()
	client, err := http_client.New(srv.URL)
	if err != nil {
		fmt.Fprintln(os.Stderr, err)
		os.Exit(2)
	}
	dir, _ := os.MkdirTemp("", "verif-conn")
	defer os.RemoveAll(dir)
	statusFile := filepath.Join(dir, "connector-status.json")
	results := make([]map[string]interface{}, 0, len(vectors))
	for i, v := range vectors {
		fm.mu.Lock()
		fm.chain = v.Chain
		fm.head = v.Head
		fm.mu.Unlock()
		// the persisted cursor the connector starts from
		st := map[string]uint64{"last_checked_minter_block": v.From.Blk, "last_event_nonce": v.From.Ev, "last_batch_nonce": v.From.Bat, "last_valset_nonce": 0}
		sb, _ := json.Marshal(st)
		os.WriteFile(statusFile, sb, 0o644)
		ctx := mctx.Context{MinterMultisigAddr: multisig, MinterClient: client, Logger: log.NewNopLogger()}
		ctx.LoadStatus(statusFile, config.MinterConfig{StartBlock: 0, StartEventNonce: 1, StartBatchNonce: 1})
		res := map[string]interface{}{"i": i}
		func() {
			defer func() {
				if r := recover(); r != nil {
					res["panic"] = fmt.Sprint(r)
				}
			}()
			ctx = minter.GetLatestMinterBlockAndNonce(ctx, v.Ack)
		}()
		// what is on disk now
		db, _ := os.ReadFile(statusFile)
		var disk map[string]uint64
		json.Unmarshal(db, &disk)
		res["disk"] = cursor{Blk: disk["last_checked_minter_block"], Ev: disk["last_event_nonce"], Bat: disk["last_batch_nonce"]}
		res["mem"] = cursor{Blk: ctx.LastCheckedMinterBlock(), Ev: ctx.LastEventNonce(), Bat: ctx.LastBatchNonce()}
		res["valset"] = ctx.LastValsetNonce()
		results = append(results, res)
	}
	ob, _ := json.Marshal(results)
	os.WriteFile(*out, ob, 0o644)
	fmt.Printf("vectors=%d\n", len(results))
}

type cmdCase struct {
	Type      string `json:"type"`
	Recipient string `json:"recipient"`
	Fee       string `json:"fee"`
	Amount    string `json:"amount"`
}

// cmdCommand evaluates the real command.ValidateAndComplete on a grid of cases.
func cmdCommand(args []string) {
	fs := flag.NewFlagSet("command", flag.ExitOnError)
	in := fs.String("cases", "", "JSON array of cases")
	out := fs.String("out", "", "result file")
	fs.Parse(args)
	bz, err := os.ReadFile(*in)
	if err != nil {
		fmt.Fprintln(os.Stderr, err)
		os.Exit(2)
	}
	var cases []cmdCase
	if err := json.Unmarshal(bz, &cases); err != nil {
		fmt.Fprintln(os.Stderr, err)
		os.Exit(2)
	}
	res := make([]map[string]interface{}, 0, len(cases))
	for i, c := range cases {
		amt, ok := sdk.NewIntFromString(c.Amount)
		if !ok {
			amt = sdk.ZeroInt()
		}
		if c.Recipient == "@bech32" {
			c.Recipient = sdk.AccAddress(make([]byte, 20)).String()
		}
		cmd := &command.Command{Type: c.Type, Recipient: c.Recipient, Fee: c.Fee}
		r := map[string]interface{}{"i": i}
		func() {
			defer func() {
				if p := recover(); p != nil {
					r["panic"] = fmt.Sprint(p)
				}
			}()
			err := cmd.ValidateAndComplete(amt)
			r["ok"] = err == nil
		}()
		res = append(res, r)
	}
	ob, _ := json.Marshal(res)
	os.WriteFile(*out, ob, 0o644)
	fmt.Printf("cases=%d\n", len(res))
}
