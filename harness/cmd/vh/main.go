// vh is the conformance harness: it replays scripts on the real application and writes traces.
package main

import (
	"bufio"
	"flag"
	"fmt"
	"os"

	mhubtypes "github.com/MinterTeam/mhub2/module/x/mhub2/types"

	"verifharness/osvc"
	"verifharness/runner"
	"verifharness/world"
)

// the real oracle service (oracle/cmd/mhub-oracle) for OrcRelay actions
func oracleService(w *world.World, emit func(world.J)) (func(int, world.Act), func(), error) {
	s, err := osvc.New(w, emit)
	if err != nil {
		return nil, nil, err
	}
	return s.Relay, s.Close, nil
}

func mhubChain(c string) mhubtypes.ChainID { return mhubtypes.ChainID(c) }

func main() {
	if len(os.Args) < 2 {
		fmt.Fprintln(os.Stderr, "usage: vh <run> ...")
		os.Exit(2)
	}
	switch os.Args[1] {
	case "run":
		cmdRun(os.Args[2:])
	case "claimid":
		cmdClaimId(os.Args[2:])
	case "replicas":
		cmdReplicas(os.Args[2:])
	case "genesis":
		cmdGenesis(os.Args[2:])
	case "abi":
		cmdAbi(os.Args[2:])
	case "connector":
		world.SetAddrCfg()
		cmdConnector(os.Args[2:])
	case "command":
		world.SetAddrCfg()
		cmdCommand(os.Args[2:])
	default:
		fmt.Fprintln(os.Stderr, "unknown subcommand", os.Args[1])
		os.Exit(2)
	}
}

func cmdRun(args []string) {
	fs := flag.NewFlagSet("run", flag.ExitOnError)
	in := fs.String("scripts", "", "ndjson scripts file")
	out := fs.String("out", "", "trace output file")
	digest := fs.Bool("digest", false, "include raw state digests")
	nopost := fs.Bool("nopost", false, "do not record the projected state (totality runs)")
	fs.Parse(args)
	f, err := os.Open(*in)
	if err != nil {
		fmt.Fprintln(os.Stderr, err)
		os.Exit(2)
	}
	scripts, err := runner.ReadScripts(f)
	if err != nil {
		fmt.Fprintln(os.Stderr, err)
		os.Exit(2)
	}
	of, err := os.Create(*out)
	if err != nil {
		fmt.Fprintln(os.Stderr, err)
		os.Exit(2)
	}
	bw := bufio.NewWriterSize(of, 1<<20)
	dead := 0
	for _, s := range scripts {
		w, err := runner.Run(s, world.DefaultCfg(), runner.Options{Digest: *digest, NoPost: *nopost, Service: oracleService}, bw)
		if err != nil {
			fmt.Fprintln(os.Stderr, "script", s.Id, err)
			os.Exit(2)
		}
		if w.Dead != "" {
			dead++
		}
	}
	bw.Flush()
	of.Close()
	fmt.Printf("scripts=%d dead=%d\n", len(scripts), dead)
}
