package main

import (
	"bufio"
	"encoding/json"
	"flag"
	"fmt"
	"os"

	"verifharness/runner"
	"verifharness/world"

	"github.com/MinterTeam/mhub2/module/app"
	mhubtypes "github.com/MinterTeam/mhub2/module/x/mhub2/types"
)

// completeGenesis adds to an exported application state the pool entries and outgoing txs that this code's ExportGenesis
// leaves out (recorded finding C15-export-omits-state), read from the original application, so that the part of InitGenesis
// no real export reaches can be observed (exploration only: no registered check judges these lines).
func completeGenesis(w *world.World, appState json.RawMessage) json.RawMessage {
	var st map[string]json.RawMessage
	if err := json.Unmarshal(appState, &st); err != nil {
		panic(err)
	}
	cdc := app.MakeEncodingConfig().Marshaler
	var gs mhubtypes.GenesisState
	cdc.MustUnmarshalJSON(st[mhubtypes.ModuleName], &gs)
	ctx := w.Ctx()
	for _, es := range gs.ExternalStates {
		es := es
		chain := mhubtypes.ChainID(es.ChainId)
		w.K.Mhub2.IterateUnbatchedSendToExternals(ctx, chain, func(s *mhubtypes.SendToExternal) bool {
			es.UnbatchedSendToExternalTxs = append(es.UnbatchedSendToExternalTxs, s)
			return false
		})
		for _, pb := range []byte{mhubtypes.SignerSetTxPrefixByte, mhubtypes.BatchTxPrefixByte, mhubtypes.ContractCallTxPrefixByte} {
			w.K.Mhub2.IterateOutgoingTxsByType(ctx, chain, pb, func(_ []byte, otx mhubtypes.OutgoingTx) bool {
				any, err := mhubtypes.PackOutgoingTx(otx)
				if err != nil {
					panic(err)
				}
				es.OutgoingTxs = append(es.OutgoingTxs, any)
				return false
			})
		}
	}
	st[mhubtypes.ModuleName] = cdc.MustMarshalJSON(&gs)
	bz, err := json.Marshal(st)
	if err != nil {
		panic(err)
	}
	return bz
}

// cmdGenesis: for every script and every chosen block boundary, run the script up to the boundary, export the
// application state the production way (ExportAppStateAndValidators), initialise a fresh application from it
// (InitChain) and record the projected state of both; then run the rest of the script on both and record the
// projected states and results after every step.
func cmdGenesis(args []string) {
	fs := flag.NewFlagSet("genesis", flag.ExitOnError)
	in := fs.String("scripts", "", "ndjson scripts file")
	out := fs.String("out", "", "output ndjson")
	every := fs.Int("every", 0, "export at every k-th block boundary (0: one boundary per script, chosen by -pick)")
	pick := fs.Int("pick", 1, "which boundary (1-based, modulo the number of boundaries) when -every=0")
	complete := fs.Bool("complete", false, "add the pool and the outgoing txs of the original to the exported genesis before the import (exploration)")
	fs.Parse(args)
	f, err := os.Open(*in)
	if err != nil {
		fmt.Fprintln(os.Stderr, err)
		os.Exit(2)
	}
	scripts, err := runner.ReadScripts(f)
	if err != nil {
		fmt.Fprintln(os.Stderr, err)
		os.Exit(2)
	}
	of, err := os.Create(*out)
	if err != nil {
		fmt.Fprintln(os.Stderr, err)
		os.Exit(2)
	}
	bw := bufio.NewWriterSize(of, 1<<20)
	enc := json.NewEncoder(bw)
	enc.SetEscapeHTML(false)
	n := 0
	for _, s := range scripts {
		cfg := world.DefaultCfg()
		if s.Cfg != nil {
			cfg = *s.Cfg
		}
		var ends []int
		for i, a := range s.Acts {
			if a.S("k") == "End" {
				ends = append(ends, i)
			}
		}
		if len(ends) == 0 {
			continue
		}
		var chosen []int
		// a script may name the boundaries it wants exported ({"k": "End", "export": true}): always taken
		var named []int
		for _, e := range ends {
			if s.Acts[e].Has("export") {
				named = append(named, e)
			}
		}
		if len(named) > 0 {
			chosen = named
		} else if *every > 0 {
			for j := 0; j < len(ends); j += *every {
				chosen = append(chosen, ends[j])
			}
		} else {
			chosen = []int{ends[(*pick+len(s.Id))%len(ends)]}
		}
		for _, b := range chosen {
			w := world.New(cfg)
			dead := false
			for i := 0; i <= b; i++ {
				a := cloneAct(s.Acts[i])
				a["i"] = i + 1
				w.Exec(a)
				if w.Dead != "" {
					dead = true
					break
				}
			}
			if dead {
				continue
			}
			line := world.J{"k": "roundtrip", "id": s.Id, "boundary": b + 1, "aux": w.Aux()}
			var w2 *world.World
			var experr string
			func() {
				defer func() {
					if r := recover(); r != nil {
						experr = fmt.Sprint(r)
					}
				}()
				exp, err := w.App.ExportAppStateAndValidators(false, nil)
				if err != nil {
					experr = err.Error()
					return
				}
				if *complete {
					exp.AppState = completeGenesis(w, exp.AppState)
					line["complete"] = true
				}
				w2 = world.NewFromExport(cfg, w.N, exp.AppState, nil, exp.Height, w.T)
			}()
			if experr != "" || w2 == nil {
				line["error"] = experr
				enc.Encode(line)
				continue
			}
			line["orig"] = w.Project()
			line["copy"] = w2.Project()
			enc.Encode(line)
			n++
			for i := b + 1; i < len(s.Acts); i++ {
				a1 := cloneAct(s.Acts[i])
				a1["i"] = i + 1
				a2 := cloneAct(s.Acts[i])
				a2["i"] = i + 1
				o1 := w.Exec(a1)
				o2 := w2.Exec(a2)
				enc.Encode(world.J{"k": "cont", "id": s.Id, "boundary": b + 1, "i": i + 1, "act": w.Canon(a1),
					"res_orig": o1, "res_copy": o2, "orig": w.Project(), "copy": w2.Project()})
				if w.Dead != "" || w2.Dead != "" {
					break
				}
			}
		}
	}
	bw.Flush()
	of.Close()
	fmt.Printf("scripts=%d roundtrips=%d\n", len(scripts), n)
}

func cloneAct(a world.Act) world.Act {
	bz, _ := json.Marshal(a)
	var c world.Act
	json.Unmarshal(bz, &c)
	return c
}
