package main

import (
	"bytes"
	"crypto/ecdsa"
	"crypto/sha256"
	"encoding/hex"
	"encoding/json"
	"flag"
	"fmt"
	"math/big"
	"os"

	sdk "github.com/cosmos/cosmos-sdk/types"
	gethcommon "github.com/ethereum/go-ethereum/common"
	gethcrypto "github.com/ethereum/go-ethereum/crypto"

	mhubtypes "github.com/MinterTeam/mhub2/module/x/mhub2/types"
)

type abiVector struct {
	Shape map[string]interface{} `json:"shape"`
	Slots [][]interface{}        `json:"slots"`
}

var two256 = new(big.Int).Lsh(big.NewInt(1), 256)

// value tables: variant v rotates through them so that every shape is filled with different edge values
func uintTable(v, i int) *big.Int {
	t := []*big.Int{big.NewInt(0), big.NewInt(1), new(big.Int).Lsh(big.NewInt(1), 255), new(big.Int).Sub(two256, big.NewInt(1)),
		big.NewInt(1000000007), new(big.Int).SetUint64(^uint64(0))}
	return t[(v*7+i*3)%len(t)]
}

// u63Table: values the hub carries as uint64 and casts through int64 (nonces, timeouts, powers): stay below 2^63
func u63Table(v, i int) uint64 {
	t := []uint64{0, 1, 2, 4294967295, 1 << 40, (1 << 63) - 1}
	return t[(v*5+i)%len(t)]
}

func addrTable(v, i int) gethcommon.Address {
	h := sha256.Sum256([]byte(fmt.Sprintf("abi-addr-%d-%d", v, i)))
	a := gethcommon.BytesToAddress(h[:20])
	switch (v + i) % 4 {
	case 0:
		a[0], a[1], a[2] = 0, 0, 0 // leading zero bytes
	case 1:
		a[19] = 0
	}
	return a
}

func gravityID(n int) string { return "gravityidgravityidgravityidgravityid"[:n] }

func word(b *big.Int) []byte {
	out := make([]byte, 32)
	b.FillBytes(out)
	return out
}

// cmdAbi: for every slot vector of spec/AbiLayout.tla build the hub object, fill the layout's leaves with the same
// values, encode the slots independently, hash and compare with the hub's GetCheckpoint.
func cmdAbi(args []string) {
	fs := flag.NewFlagSet("abi", flag.ExitOnError)
	in := fs.String("layouts", "", "layouts.json")
	sigsIn := fs.String("sigs", "", "sigs.json")
	out := fs.String("out", "", "result file")
	fs.Parse(args)
	bz, err := os.ReadFile(*in)
	if err != nil {
		fmt.Fprintln(os.Stderr, err)
		os.Exit(2)
	}
	var vectors []abiVector
	dec := json.NewDecoder(bytes.NewReader(bz))
	dec.UseNumber()
	if err := dec.Decode(&vectors); err != nil {
		fmt.Fprintln(os.Stderr, err)
		os.Exit(2)
	}
	geti := func(m map[string]interface{}, k string) int {
		n, _ := m[k].(json.Number).Int64()
		return int(n)
	}
	results := []map[string]interface{}{}
	for idx, vec := range vectors {
		sh := vec.Shape
		kind := sh["kind"].(string)
		v := geti(sh, "variant")
		gid := gravityID(geti(sh, "gid"))
		leaves := map[string][][]byte{}
		var gidw [32]byte
		copy(gidw[:], gid)
		leaves["gravityId"] = [][]byte{gidw[:]}
		var hubDigest []byte
		res := map[string]interface{}{"i": idx, "kind": kind, "shape": sh}
		func() {
			defer func() {
				if r := recover(); r != nil {
					res["panic"] = fmt.Sprint(r)
				}
			}()
			switch kind {
			case "valset":
				n := geti(sh, "n")
				var m [32]byte
				copy(m[:], "checkpoint")
				leaves["method"] = [][]byte{m[:]}
				nonce := u63Table(v, 9)
				leaves["nonce"] = [][]byte{word(new(big.Int).SetUint64(nonce))}
				var signers []*mhubtypes.ExternalSigner
				for i := 0; i < n; i++ {
					a := addrTable(v, i)
					p := u63Table(v, i)
					signers = append(signers, &mhubtypes.ExternalSigner{ExternalAddress: a.Hex(), Power: p})
					leaves["validators"] = append(leaves["validators"], word(new(big.Int).SetBytes(a.Bytes())))
					leaves["powers"] = append(leaves["powers"], word(new(big.Int).SetUint64(p)))
				}
				hubDigest = mhubtypes.SignerSetTx{Nonce: nonce, Signers: signers}.GetCheckpoint([]byte(gid))
			case "batch":
				k := geti(sh, "k")
				var m [32]byte
				copy(m[:], "transactionBatch")
				leaves["method"] = [][]byte{m[:]}
				nonce, timeout := u63Table(v, 3), u63Table(v, 4)
				token := addrTable(v, 77)
				leaves["batchNonce"] = [][]byte{word(new(big.Int).SetUint64(nonce))}
				leaves["timeout"] = [][]byte{word(new(big.Int).SetUint64(timeout))}
				leaves["token"] = [][]byte{word(new(big.Int).SetBytes(token.Bytes()))}
				var txs []*mhubtypes.SendToExternal
				for i := 0; i < k; i++ {
					amt, fee, dst := uintTable(v, i), uintTable(v+1, i+2), addrTable(v, i+10)
					txs = append(txs, &mhubtypes.SendToExternal{Id: uint64(i + 1), ExternalRecipient: dst.Hex(),
						Token: mhubtypes.ExternalToken{Amount: sdk.NewIntFromBigInt(amt), ExternalTokenId: token.Hex()},
						Fee:   mhubtypes.ExternalToken{Amount: sdk.NewIntFromBigInt(fee), ExternalTokenId: token.Hex()}})
					leaves["amounts"] = append(leaves["amounts"], word(amt))
					leaves["fees"] = append(leaves["fees"], word(fee))
					leaves["destinations"] = append(leaves["destinations"], word(new(big.Int).SetBytes(dst.Bytes())))
				}
				hubDigest = mhubtypes.BatchTx{BatchNonce: nonce, Timeout: timeout, Transactions: txs, ExternalTokenId: token.Hex()}.GetCheckpoint([]byte(gid))
			case "logic":
				t, f, plen := geti(sh, "t"), geti(sh, "f"), geti(sh, "plen")
				var m [32]byte
				copy(m[:], "logicCall")
				leaves["method"] = [][]byte{m[:]}
				logic := addrTable(v, 55)
				timeout, inonce := u63Table(v, 1), u63Table(v, 2)
				scopeFull := sha256.Sum256([]byte(fmt.Sprintf("scope-%d", v)))
				// the invalidation scope is a byte string of any length on the hub; the contract takes a bytes32:
				// left aligned, zero padded (a scope longer than 32 bytes is cut)
				slen := 32
				if _, ok := sh["slen"]; ok {
					slen = geti(sh, "slen")
				}
				scopeBytes := append([]byte{}, scopeFull[:]...)
				scopeBytes = append(scopeBytes, scopeFull[:8]...) // 40 bytes available
				scopeBytes = scopeBytes[:slen]
				var scope [32]byte
				copy(scope[:], scopeBytes)
				leaves["logic"] = [][]byte{word(new(big.Int).SetBytes(logic.Bytes()))}
				leaves["timeout"] = [][]byte{word(new(big.Int).SetUint64(timeout))}
				leaves["invalidationNonce"] = [][]byte{word(new(big.Int).SetUint64(inonce))}
				leaves["invalidationId"] = [][]byte{scope[:]}
				var toks, fees []mhubtypes.ExternalToken
				for i := 0; i < t; i++ {
					a, c := uintTable(v, i), addrTable(v, i+20)
					toks = append(toks, mhubtypes.ExternalToken{Amount: sdk.NewIntFromBigInt(a), ExternalTokenId: c.Hex()})
					leaves["transferAmounts"] = append(leaves["transferAmounts"], word(a))
					leaves["transferTokens"] = append(leaves["transferTokens"], word(new(big.Int).SetBytes(c.Bytes())))
				}
				for i := 0; i < f; i++ {
					a, c := uintTable(v+2, i), addrTable(v, i+30)
					fees = append(fees, mhubtypes.ExternalToken{Amount: sdk.NewIntFromBigInt(a), ExternalTokenId: c.Hex()})
					leaves["feeAmounts"] = append(leaves["feeAmounts"], word(a))
					leaves["feeTokens"] = append(leaves["feeTokens"], word(new(big.Int).SetBytes(c.Bytes())))
				}
				payload := make([]byte, plen)
				for i := range payload {
					payload[i] = byte(i*7 + v + 1)
				}
				leaves["payload"] = [][]byte{payload}
				hubDigest = mhubtypes.ContractCallTx{InvalidationNonce: inonce, InvalidationScope: scopeBytes, Address: logic.Hex(), Payload: payload,
					Timeout: timeout, Tokens: toks, Fees: fees}.GetCheckpoint([]byte(gid))
			}
		}()
		// independent encoding from the specification's slots
		var enc []byte
		ok := true
		for _, sl := range vec.Slots {
			switch sl[0].(string) {
			case "num":
				n, _ := sl[1].(json.Number).Int64()
				enc = append(enc, word(big.NewInt(n))...)
			case "leaf":
				name := sl[1].(string)
				i, _ := sl[2].(json.Number).Int64()
				l := leaves[name]
				if int(i) < 1 || int(i) > len(l) {
					ok = false
					continue
				}
				enc = append(enc, l[i-1]...)
			case "bytes":
				p := leaves["payload"][0]
				enc = append(enc, p...)
				if pad := (32 - len(p)%32) % 32; pad > 0 {
					enc = append(enc, make([]byte, pad)...)
				}
			}
		}
		want := gethcrypto.Keccak256(enc)
		res["spec"] = hex.EncodeToString(want)
		res["hub"] = hex.EncodeToString(hubDigest)
		res["equal"] = ok && bytes.Equal(want, hubDigest)
		results = append(results, res)
	}
	// signature scheme vectors
	sigRes := []map[string]interface{}{}
	if *sigsIn != "" {
		sb, err := os.ReadFile(*sigsIn)
		if err == nil {
			var sv []map[string]interface{}
			d2 := json.NewDecoder(bytes.NewReader(sb))
			d2.UseNumber()
			d2.Decode(&sv)
			keys := []*ecdsa.PrivateKey{}
			digs := [][]byte{}
			for i := 1; i <= 3; i++ {
				h := sha256.Sum256([]byte(fmt.Sprintf("abi-key-%d", i)))
				k, _ := gethcrypto.ToECDSA(h[:])
				keys = append(keys, k)
				d := sha256.Sum256([]byte(fmt.Sprintf("abi-digest-%d", i)))
				digs = append(digs, d[:])
			}
			for n, vct := range sv {
				i, j, k, l := geti(vct, "i"), geti(vct, "j"), geti(vct, "k"), geti(vct, "l")
				sig, err := mhubtypes.NewEthereumSignature(digs[j-1], keys[i-1])
				r := map[string]interface{}{"n": n, "want": vct["accept"]}
				if err != nil {
					r["err"] = err.Error()
				} else {
					addr := gethcrypto.PubkeyToAddress(keys[k-1].PublicKey)
					r["hub"] = mhubtypes.ValidateEthereumSignature(digs[l-1], sig, addr) == nil
					// the contract's scheme: ecrecover(keccak256("\x19Ethereum Signed Message:\n32" || digest), v, r, s) == signer
					pre := gethcrypto.Keccak256(append([]byte("\x19Ethereum Signed Message:\n32"), digs[l-1]...))
					pub, err := gethcrypto.SigToPub(pre, sig)
					r["contract"] = err == nil && gethcrypto.PubkeyToAddress(*pub) == addr
					r["v"] = int(sig[64])
				}
				sigRes = append(sigRes, r)
			}
		}
	}
	ob, _ := json.Marshal(map[string]interface{}{"layouts": results, "sigs": sigRes})
	os.WriteFile(*out, ob, 0o644)
	fmt.Printf("layouts=%d sigs=%d\n", len(results), len(sigRes))
}
