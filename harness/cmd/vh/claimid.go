package main

import (
	"encoding/hex"
	"encoding/json"
	"flag"
	"fmt"
	"os"
	"reflect"

	mhubtypes "github.com/MinterTeam/mhub2/module/x/mhub2/types"

	"verifharness/world"
)

// cmdClaimId: for every pair of events produced by spec/ClaimId.tla compute the real claim hashes and submit
// both events through two different validators of a fresh application; report whether they were tallied together.
func cmdClaimId(args []string) {
	fs := flag.NewFlagSet("claimid", flag.ExitOnError)
	in := fs.String("pairs", "", "JSON array of pairs")
	out := fs.String("out", "", "result file")
	fs.Parse(args)
	bz, err := os.ReadFile(*in)
	if err != nil {
		fmt.Fprintln(os.Stderr, err)
		os.Exit(2)
	}
	var pairs []map[string]interface{}
	if err := json.Unmarshal(bz, &pairs); err != nil {
		fmt.Fprintln(os.Stderr, err)
		os.Exit(2)
	}
	results := []world.J{}
	for i, p := range pairs {
		chain := "ethereum"
		if c, ok := p["chain"].(string); ok {
			chain = c
		}
		a := world.Act(p["a"].(map[string]interface{}))
		b := world.Act(p["b"].(map[string]interface{}))
		w := world.New(world.DefaultCfg())
		ea, err1 := w.BuildEvent(chain, a)
		eb, err2 := w.BuildEvent(chain, b)
		if err1 != nil || err2 != nil {
			fmt.Fprintln(os.Stderr, "pair", i, err1, err2)
			os.Exit(2)
		}
		r := world.J{"i": i, "kind": p["kind"], "t": p["t"], "field": p["field"], "chain": chain,
			"hash_a": hex.EncodeToString(ea.Hash()), "hash_b": hex.EncodeToString(eb.Hash()),
			"hash_equal": hex.EncodeToString(ea.Hash()) == hex.EncodeToString(eb.Hash()),
			"valid_a":    ea.Validate(mhubChain(chain)) == nil, "valid_b": eb.Validate(mhubChain(chain)) == nil}
		// two validators, one claim each, same block
		w.BeginBlock(1)
		o1 := w.Exec(world.Act{"k": "Claim", "by": "v1", "chain": chain, "ev": map[string]interface{}(a)})
		o2 := w.Exec(world.Act{"k": "Claim", "by": "v2", "chain": chain, "ev": map[string]interface{}(b)})
		st := w.Project()
		votes := st["ch"].(world.J)[chain].(world.J)["votes"].([]interface{})
		r["claim_a"] = o1.Out
		r["claim_b"] = o2.Out
		r["records"] = len(votes)
		merged := false
		for _, v := range votes {
			if len(v.(world.J)["voters"].([]interface{})) > 1 {
				merged = true
			}
		}
		r["tallied_together"] = merged
		results = append(results, r)
	}
	// the Go struct fields of every event type, so that a field added to an event but unknown to the
	// specification's field list is noticed (the check then refuses to give a verdict)
	structs := world.J{}
	for name, ev := range map[string]interface{}{"Deposit": mhubtypes.TransferToChainEvent{}, "ToHub": mhubtypes.SendToHubEvent{},
		"Exec": mhubtypes.BatchExecutedEvent{}, "SSExec": mhubtypes.SignerSetTxExecutedEvent{}, "CCExec": mhubtypes.ContractCallExecutedEvent{}} {
		t := reflect.TypeOf(ev)
		fl := []string{}
		for i := 0; i < t.NumField(); i++ {
			fl = append(fl, t.Field(i).Name)
		}
		structs[name] = fl
	}
	ob, _ := json.MarshalIndent(world.J{"pairs": results, "structs": structs}, "", " ")
	if err := os.WriteFile(*out, ob, 0o644); err != nil {
		fmt.Fprintln(os.Stderr, err)
		os.Exit(2)
	}
	fmt.Printf("pairs=%d\n", len(results))
}
