package main

import (
	"bufio"
	"encoding/json"
	"flag"
	"fmt"
	"io"
	"os"

	"verifharness/runner"
	"verifharness/world"
)

// cmdReplicas executes every script on R fresh application instances and records, per step, what each replica
// answered (result class, app hash + hash of all ABCI responses for block ends, raw state digest). Go randomises
// map iteration per range statement, so replicas inside one process already differ in iteration order.
func cmdReplicas(args []string) {
	fs := flag.NewFlagSet("replicas", flag.ExitOnError)
	in := fs.String("scripts", "", "ndjson scripts file")
	out := fs.String("out", "", "output ndjson: one line per script step with the replicas' observations")
	r := fs.Int("r", 3, "replicas")
	fs.Parse(args)
	f, err := os.Open(*in)
	if err != nil {
		fmt.Fprintln(os.Stderr, err)
		os.Exit(2)
	}
	scripts, err := runner.ReadScripts(f)
	if err != nil {
		fmt.Fprintln(os.Stderr, err)
		os.Exit(2)
	}
	of, err := os.Create(*out)
	if err != nil {
		fmt.Fprintln(os.Stderr, err)
		os.Exit(2)
	}
	bw := bufio.NewWriterSize(of, 1<<20)
	enc := json.NewEncoder(bw)
	for _, s := range scripts {
		cfg := world.DefaultCfg()
		if s.Cfg != nil {
			cfg = *s.Cfg
		}
		obs := make([][]string, len(s.Acts))
		for rep := 0; rep < *r; rep++ {
			w := world.New(cfg)
			for i, a := range s.Acts {
				// each replica gets its own copy of the action (Exec annotates it)
				bz, _ := json.Marshal(a)
				var ac world.Act
				json.Unmarshal(bz, &ac)
				ac["i"] = i + 1
				o := w.Exec(ac)
				d := ""
				if w.Dead == "" {
					d = w.Digest()
				}
				obs[i] = append(obs[i], fmt.Sprintf("%s|%d|%s|%s", o.Out, o.Code, o.Hash, d))
				if w.Dead != "" {
					break
				}
			}
		}
		for i, a := range s.Acts {
			if len(obs[i]) == 0 {
				continue
			}
			enc.Encode(world.J{"id": s.Id, "i": i + 1, "k": a.S("k"), "obs": obs[i]})
		}
	}
	bw.Flush()
	of.Close()
	fmt.Printf("scripts=%d replicas=%d\n", len(scripts), *r)
	_ = io.EOF
}
