// Package osvc runs the REAL price / holders oracle service (relayPricesAndHolders, getPrices, getHolders of
// oracle/cmd/mhub-oracle/main.go, through the generated package gen/oraclemain) for a validator of a World: the
// service asks the application's own oracle query server over a real gRPC connection for the current epoch and its
// votes, fetches prices and holders over HTTP from a scripted source, and hands its claims to a tx committer whose
// messages are delivered to the application as signed transactions.
package osvc

import (
	"context"
	"encoding/json"
	"fmt"
	"net"
	"net/http"
	"net/http/httptest"
	"strings"
	"sync"
	"time"

	sdk "github.com/cosmos/cosmos-sdk/types"
	"github.com/tendermint/tendermint/libs/log"
	"google.golang.org/grpc"
	"google.golang.org/grpc/test/bufconn"

	"github.com/MinterTeam/mhub2/minter-connector/tx_committer"
	oracletypes "github.com/MinterTeam/mhub2/module/x/oracle/types"
	"github.com/MinterTeam/mhub2/oracle/config"

	"verifharness/gen/oraclemain"
	"verifharness/world"
)

type J = world.J

// source is the external price / holders feed.
type source struct {
	mu      sync.Mutex
	prices  []map[string]string
	holders []map[string]string
}

func (s *source) ServeHTTP(w http.ResponseWriter, r *http.Request) {
	s.mu.Lock()
	defer s.mu.Unlock()
	w.Header().Set("Content-Type", "application/json")
	if strings.HasSuffix(r.URL.Path, "/prices") {
		json.NewEncoder(w).Encode(map[string]interface{}{"data": s.prices})
		return
	}
	json.NewEncoder(w).Encode(map[string]interface{}{"data": s.holders})
}

// committer implements tx_committer.TxCommitterClient: every CommitTx is one signed transaction of the validator.
type committer struct {
	svc  *Svc
	val  string
	i    int
	outs []interface{}
}

func (c *committer) Address(context.Context, *tx_committer.AddressRequest, ...grpc.CallOption) (*tx_committer.AddressReply, error) {
	return &tx_committer.AddressReply{Address: c.svc.W.N.Acct(c.val).Addr.String()}, nil
}

func (c *committer) CommitTx(_ context.Context, in *tx_committer.CommitTxRequest, _ ...grpc.CallOption) (*tx_committer.CommitTxReply, error) {
	msgs, err := tx_committer.UnmarshalMsgs(in.Msgs)
	if err != nil {
		return nil, err
	}
	w := c.svc.W
	for _, m := range msgs {
		act := c.svc.msgAct(m)
		c.outs = append(c.outs, act)
		w.BumpStep()
		c.svc.mu.Lock()
		o, _ := w.Deliver(c.val, m)
		c.svc.mu.Unlock()
		if o.Hash != "" {
			name := fmt.Sprintf("h%d", w.StepNo())
			w.N.RegisterTxHash(o.Hash, name)
			o.Hash = name
		}
		if o.Out == "err" {
			o.Log = world.ShortLog(o.Log)
		}
		act["i"] = c.i
		c.svc.emit(J{"k": "step", "i": c.i, "act": act, "res": o, "post": w.Project()})
	}
	return &tx_committer.CommitTxReply{Code: 0}, nil
}

// Svc is the oracle service environment of one World.
type Svc struct {
	W     *world.World
	src   *source
	http  *httptest.Server
	gsrv  *grpc.Server
	gconn *grpc.ClientConn
	mu    sync.Mutex
	emit  func(J)
}

func New(w *world.World, emit func(J)) (*Svc, error) {
	s := &Svc{W: w, src: &source{}, emit: emit}
	s.http = httptest.NewServer(s.src)
	s.gsrv = grpc.NewServer(grpc.UnaryInterceptor(func(_ context.Context, req interface{}, _ *grpc.UnaryServerInfo, h grpc.UnaryHandler) (interface{}, error) {
		s.mu.Lock()
		defer s.mu.Unlock()
		return h(sdk.WrapSDKContext(s.W.Ctx()), req)
	}))
	oracletypes.RegisterQueryServer(s.gsrv, w.K.Oracle)
	lis := bufconn.Listen(1 << 20)
	go s.gsrv.Serve(lis)
	var err error
	s.gconn, err = grpc.DialContext(context.Background(), "bufnet",
		grpc.WithContextDialer(func(context.Context, string) (net.Conn, error) { return lis.Dial() }), grpc.WithInsecure())
	return s, err
}

func (s *Svc) Close() {
	s.http.Close()
	s.gsrv.Stop()
}

func (s *Svc) msgAct(m sdk.Msg) world.Act {
	w := s.W
	switch msg := m.(type) {
	case *oracletypes.MsgPriceClaim:
		pr := J{}
		for _, it := range msg.GetPrices().List {
			pr[it.Name] = world.DecScaled(it.Value, 4)
		}
		return world.Act{"k": "Price", "by": w.N.Name(msg.Orchestrator), "ep": msg.Epoch, "pr4": pr, "svc": true}
	case *oracletypes.MsgHoldersClaim:
		l := []interface{}{}
		for _, it := range msg.GetHolders().List {
			l = append(l, []interface{}{w.HolderName(it.Address), world.Num(it.Value)})
		}
		return world.Act{"k": "Holders", "by": w.N.Name(msg.Orchestrator), "ep": msg.Epoch, "list": l, "svc": true}
	}
	return world.Act{"k": "Unknown"}
}

var e18 = sdk.NewIntWithDecimal(1, 18)

// Relay runs one pass of the service for validator a.by with the feed showing a.pr4 (4 * price per name) and
// a.list ([name, whole units]; 0 units = half a unit, below the service's minimum), and writes the trace lines.
func (s *Svc) Relay(i int, a world.Act) {
	w := s.W
	val := a.S("by")
	if a.Has("period") {
		oraclemain.SetHoldersUpdatePeriod(a.U("period"))
	}
	s.src.mu.Lock()
	s.src.prices = nil
	for name, v := range a.M("pr4") {
		q, _ := sdk.NewIntFromString(fmt.Sprint(v))
		s.src.prices = append(s.src.prices, map[string]string{"denom": name, "price": sdk.NewDecFromInt(q).QuoInt64(4).String()})
	}
	s.src.holders = nil
	for _, it := range a.L("list") {
		p := it.([]interface{})
		units, _ := sdk.NewIntFromString(fmt.Sprint(p[1]))
		bal := units.Mul(e18)
		if units.IsZero() {
			bal = e18.QuoRaw(2)
		}
		// the feed shows checksummed (mixed case) 0x addresses
		s.src.holders = append(s.src.holders, map[string]string{"address": strings.ToUpper(world.HolderAddr(w.N, fmt.Sprint(p[0]))), "balance": bal.String()})
	}
	s.src.mu.Unlock()
	w.BumpStep()
	s.emit(J{"k": "step", "i": i, "act": world.Act{"k": "OrcCall", "by": val, "i": i}, "res": world.Outcome{Out: "ok"}, "post": w.Project()})
	c := &committer{svc: s, val: val, i: i, outs: []interface{}{}}
	cfg := &config.Config{HoldersUrl: s.http.URL + "/holders", PricesUrl: s.http.URL + "/prices"}
	done := make(chan string, 1)
	go func() {
		defer func() {
			if r := recover(); r != nil {
				done <- fmt.Sprint(r)
			}
		}()
		oraclemain.RelayPricesAndHolders(cfg, w.N.Acct(val).Addr.String(), s.gconn, c, log.NewNopLogger())
		done <- ""
	}()
	res := J{"out": "ok"}
	select {
	case p := <-done:
		if p != "" {
			res["out"] = "panic"
			res["log"] = world.ShortLog(p)
		}
	case <-time.After(20 * time.Second):
		res["out"] = "timeout"
		w.Dead = "OrcRelay: the service call did not return"
	}
	res["outs"] = c.outs
	res["period"] = oraclemain.HoldersUpdatePeriod()
	s.emit(J{"k": "step", "i": i, "act": a, "res": res, "post": w.Project()})
}
