// Package mworld closes the Minter loop of the bridge on real code: the real hub application (package world), the
// REAL connector functions (relayMinterEvents, relayBatches, relayValsets from the connector's main.go, through the
// generated package gen/connmain; LoadStatus / GetLatestMinterBlockAndNonce; cosmos.CreateClaims and
// cosmos.GetLastMinterNonce) -- one connector per validator -- and the executable model of the Minter chain with
// the bridge multisig (package mnt).  The connectors talk to the hub through a real gRPC connection served by the
// application's own query server and to the Minter model through the real minter-go-sdk HTTP client; the messages
// they hand to their tx committer are delivered to the application as signed transactions.
package mworld

import (
	"context"
	"encoding/hex"
	"encoding/json"
	"fmt"
	"io"
	"math/big"
	"net"
	"net/http/httptest"
	"os"
	"path/filepath"
	"sort"
	"strconv"
	"strings"
	"sync"
	"time"

	sdk "github.com/cosmos/cosmos-sdk/types"
	gethcrypto "github.com/ethereum/go-ethereum/crypto"
	"github.com/tendermint/tendermint/libs/log"
	"google.golang.org/grpc"
	"google.golang.org/grpc/test/bufconn"

	"github.com/MinterTeam/mhub2/minter-connector/config"
	mctx "github.com/MinterTeam/mhub2/minter-connector/context"
	"github.com/MinterTeam/mhub2/minter-connector/cosmos"
	"github.com/MinterTeam/mhub2/minter-connector/minter"
	"github.com/MinterTeam/mhub2/minter-connector/tx_committer"
	mhubtypes "github.com/MinterTeam/mhub2/module/x/mhub2/types"
	"github.com/MinterTeam/minter-go-sdk/v2/api/http_client"
	"github.com/MinterTeam/minter-go-sdk/v2/wallet"

	"verifharness/gen/connmain"
	"verifharness/mnt"
	"verifharness/osvc"
	"verifharness/world"
)

const Chain = "minter"

type J = world.J

// Conn is one validator's connector.
type Conn struct {
	Start      *config.MinterConfig // the start configuration of this connector if it was set up anew (else the global one)
	Val        string
	Ctx        mctx.Context
	StatusFile string
}

// MW is the combined world.
type MW struct {
	W         *world.World
	C         *mnt.Chain
	http      *httptest.Server
	gsrv      *grpc.Server
	gconn     *grpc.ClientConn
	mu        sync.Mutex
	Conns     map[string]*Conn
	Ref       []J // reference list of bridge events of the Minter chain, in chain order, in the model's event format
	dir       string
	enc       *json.Encoder
	subs      []*mnt.Submission // submissions seen during the running connector call
	outs      []interface{}     // model form of the messages the running connector call committed
	crashMode string            // "", "after", "before": the running call is a pass that gets killed in CommitTx
	crashSnap *statusSnap       // the status file at the moment of the kill
	Infra     string            // non-empty: the environment (not the code under test) failed
	orc       *osvc.Svc         // the oracle service environment (created on first use)
}

func mx(addr string) string { return "Mx" + strings.ToLower(strings.TrimPrefix(addr, "0x")) }

// New builds the hub, the Minter model whose multisig is owned by the hub's first signer set, and the connectors.
func New(cfg world.Cfg, out io.Writer) (*MW, error) { return NewWith(cfg, "", out) }

// NewWith additionally backs the chain evmChain (if not empty) with the real Hub2 contract on a simulated EVM: the
// whole bridge (Minter multisig and connectors on one side, the contract on the other, the hub in between) on real code.
func NewWith(cfg world.Cfg, evmChain string, out io.Writer) (*MW, error) {
	var w *world.World
	if evmChain != "" {
		var err error
		if w, err = world.NewWithEvm(cfg, evmChain); err != nil {
			return nil, err
		}
	} else {
		w = world.New(cfg)
	}
	mw := &MW{W: w, Conns: map[string]*Conn{}}
	mw.enc = json.NewEncoder(out)
	mw.enc.SetEscapeHTML(false)
	// the multisig starts without members' approval needed for the first valset: a fresh multisig owned by the
	// genesis validators with the weights the connector derives from the hub's current signer set
	ctx := w.Ctx()
	cur := w.K.Mhub2.CurrentSignerSet(ctx, mhubtypes.ChainID(Chain))
	var addrs []string
	var weights []uint64
	var total uint64
	for _, s := range cur {
		total += s.Power
	}
	for _, s := range cur {
		addrs = append(addrs, mx(s.ExternalAddress))
		weights = append(weights, sdk.NewUint(s.Power).MulUint64(1000).QuoUint64(total).Uint64())
	}
	mw.C = mnt.New(connmain.Cfg().Minter.MultisigAddr, addrs, weights, connmain.Threshold)
	mw.C.OnSubmit = func(s *mnt.Submission) { mw.subs = append(mw.subs, s) }
	mw.http = httptest.NewServer(mw.C)
	client, err := http_client.New(mw.http.URL)
	if err != nil {
		return nil, err
	}
	// gRPC: the application's own query server, every call on a context over the current state
	mw.gsrv = grpc.NewServer(grpc.UnaryInterceptor(func(_ context.Context, req interface{}, _ *grpc.UnaryServerInfo, h grpc.UnaryHandler) (interface{}, error) {
		mw.mu.Lock()
		defer mw.mu.Unlock()
		return h(sdk.WrapSDKContext(mw.W.Ctx()), req)
	}))
	mhubtypes.RegisterQueryServer(mw.gsrv, w.K.Mhub2)
	lis := bufconn.Listen(1 << 20)
	go mw.gsrv.Serve(lis)
	mw.gconn, err = grpc.DialContext(context.Background(), "bufnet",
		grpc.WithContextDialer(func(context.Context, string) (net.Conn, error) { return lis.Dial() }), grpc.WithInsecure())
	if err != nil {
		return nil, err
	}
	mw.dir, _ = os.MkdirTemp("", "verif-mworld")
	for _, v := range cfg.Vals {
		ext := w.N.Ext(extKeyOf(cfg, v.Name))
		priv := hex.EncodeToString(gethcrypto.FromECDSA(ext.Priv))
		pub, err := wallet.PublicKeyByPrivateKey(priv)
		if err != nil {
			return nil, err
		}
		addr, err := wallet.AddressByPublicKey(pub)
		if err != nil {
			return nil, err
		}
		orc := orchOf(cfg, v.Name)
		c := &Conn{Val: v.Name, StatusFile: filepath.Join(mw.dir, v.Name+"-status.json")}
		c.Ctx = mctx.Context{
			MinterMultisigAddr: mw.C.Multisig,
			CosmosConn:         mw.gconn,
			MinterClient:       client,
			OrcAddress:         w.N.Acct(orc).Addr,
			TxCommitter:        &tx_committer.Server{},
			MinterWallet:       &wallet.Wallet{PrivateKey: priv, PublicKey: pub, Address: "0x" + addr[2:]},
			Logger:             log.NewNopLogger(),
		}
		c.Ctx.LoadStatus(c.StatusFile, mw.startOf(c))
		mw.Conns[v.Name] = c
	}
	return mw, nil
}

func (mw *MW) Close() {
	if mw.orc != nil {
		mw.orc.Close()
	}
	mw.http.Close()
	mw.gsrv.Stop()
	os.RemoveAll(mw.dir)
}

// the external key / orchestrator a validator registered for the Minter chain in the genesis configuration
func extKeyOf(cfg world.Cfg, val string) string {
	for _, k := range cfg.Keys {
		if k.Val == val && k.Chain == Chain {
			return k.Ext
		}
	}
	return "e" + strings.TrimPrefix(val, "v")
}

func orchOf(cfg world.Cfg, val string) string {
	for _, k := range cfg.Keys {
		if k.Val == val && k.Chain == Chain && k.Orch != "" {
			return k.Orch
		}
	}
	return val
}

func (mw *MW) startOf(c *Conn) config.MinterConfig {
	if c.Start != nil {
		return *c.Start
	}
	return connmain.Cfg().Minter
}

// ------------------------------------------------------------------------------------------------ projection
func (mw *MW) cursor(c *Conn) J {
	st := connmain.Cfg().Minter
	if c.Start != nil {
		st = *c.Start // no status file: what the connector would load is its configured start
	}
	disk := J{"blk": st.StartBlock, "ev": st.StartEventNonce, "bat": st.StartBatchNonce, "vs": st.StartValsetNonce} // no file yet: the configured start
	if bz, err := os.ReadFile(c.StatusFile); err == nil {
		var d map[string]uint64
		if json.Unmarshal(bz, &d) == nil {
			disk = J{"blk": d["last_checked_minter_block"], "ev": d["last_event_nonce"], "bat": d["last_batch_nonce"], "vs": d["last_valset_nonce"]}
		}
	}
	return J{"blk": c.Ctx.LastCheckedMinterBlock(), "ev": c.Ctx.LastEventNonce(), "bat": c.Ctx.LastBatchNonce(), "vs": c.Ctx.LastValsetNonce(), "disk": disk}
}

func (mw *MW) members() []interface{} {
	out := []interface{}{}
	for i, a := range mw.C.Addresses {
		out = append(out, []interface{}{mw.W.N.Name("0x" + a[2:]), mw.C.Weights[i]})
	}
	return out
}

// Project is the hub's abstract state plus the Minter chain and the connectors' cursors.
func (mw *MW) Project() J {
	p := mw.W.Project()
	cust := J{}
	for coin, v := range mw.C.Cust {
		cust[mw.W.ExtTokenName(Chain, strconv.FormatUint(coin, 10))] = world.Num(sdk.NewIntFromBigInt(v))
	}
	ref := make([]interface{}, 0, len(mw.Ref))
	for _, e := range mw.Ref {
		ref = append(ref, e)
	}
	p["mnt"] = J{"h": uint64(len(mw.C.Blocks)), "nonce": mw.C.TxCount, "m": mw.members(), "thr": mw.C.Threshold, "cust": cust, "ref": ref}
	cn := J{}
	for v, c := range mw.Conns {
		cn[v] = mw.cursor(c)
	}
	p["cn"] = cn
	return p
}

// ------------------------------------------------------------------------------------------------ lines
func (mw *MW) Emit(line J) { mw.emit(line) }

func (mw *MW) emit(line J) {
	if err := mw.enc.Encode(line); err != nil {
		mw.Infra = "trace output: " + err.Error()
	}
}

func (mw *MW) stepLine(i int, act world.Act, res interface{}) {
	mw.emit(J{"k": "step", "i": i, "act": act, "res": res, "post": mw.Project()})
}

// msgAct renders a message a connector produced as a model action.
func (mw *MW) msgAct(m sdk.Msg) world.Act {
	w := mw.W
	switch msg := m.(type) {
	case *mhubtypes.MsgSubmitExternalEvent:
		ev, err := mhubtypes.UnpackEvent(msg.Event)
		if err != nil {
			return world.Act{"k": "Unknown"}
		}
		return world.Act{"k": "Claim", "by": w.N.Name(msg.Signer), "chain": msg.ChainId, "ev": w.ProjectEvent(msg.ChainId, ev)}
	case *mhubtypes.MsgSubmitExternalTxConfirmation:
		conf, err := mhubtypes.UnpackConfirmation(msg.Confirmation)
		if err != nil {
			return world.Act{"k": "Unknown"}
		}
		cid := mhubtypes.ChainID(msg.ChainId)
		var tx J
		switch c := conf.(type) {
		case *mhubtypes.BatchTxConfirmation:
			tx = J{"t": "bat", "tok": w.ExtTokenName(msg.ChainId, c.ExternalTokenId), "n": c.BatchNonce}
		case *mhubtypes.SignerSetTxConfirmation:
			tx = J{"t": "ss", "n": c.SignerSetNonce}
		default:
			tx = J{"t": "cc", "n": 0}
		}
		key := "?"
		if otx := w.K.Mhub2.GetOutgoingTx(w.Ctx(), cid, conf.GetStoreIndex(cid)); otx != nil {
			func() {
				defer func() { recover() }()
				key = w.SignerOf(otx.GetCheckpoint([]byte(w.Cfg.GravityId)), conf.GetSignature())
			}()
		}
		return world.Act{"k": "Confirm", "by": w.N.Name(msg.Signer), "chain": msg.ChainId, "tx": tx, "ext": w.N.Name(conf.GetSigner().Hex()), "key": key}
	}
	return world.Act{"k": "Unknown"}
}

// deliver commits the messages a connector queued: at most 10 per transaction (as SendCosmosTx splits them),
// signed by the connector's hub account.  A single-message transaction is recorded as that message.
type statusSnap struct {
	present bool
	data    []byte
}

func (mw *MW) deliver(i int, c *Conn, msgs []sdk.Msg) {
	w := mw.W
	if mw.crashMode != "" && mw.crashSnap == nil {
		bz, err := os.ReadFile(c.StatusFile)
		mw.crashSnap = &statusSnap{present: err == nil, data: bz}
	}
	if mw.crashMode == "before" {
		return // killed before the transaction reached the hub
	}
	signer := w.N.Name(c.Ctx.OrcAddress.String())
	for len(msgs) > 0 {
		n := len(msgs)
		if n > 10 {
			n = 10
		}
		chunk := msgs[:n]
		msgs = msgs[n:]
		acts := make([]interface{}, 0, n)
		for _, m := range chunk {
			ma := mw.msgAct(m)
			acts = append(acts, ma)
			mw.outs = append(mw.outs, ma)
		}
		var act world.Act
		if n == 1 {
			act = acts[0].(world.Act)
		} else {
			act = world.Act{"k": "Tx", "by": signer, "msgs": acts}
		}
		w.BumpStep()
		mw.mu.Lock()
		o, _ := w.Deliver(signer, chunk...)
		mw.mu.Unlock()
		if o.Hash != "" {
			name := fmt.Sprintf("h%d", w.StepNo())
			w.N.RegisterTxHash(o.Hash, name)
			o.Hash = name
		}
		if o.Out == "err" {
			o.Log = world.ShortLog(o.Log)
		}
		act["i"] = i
		mw.stepLine(i, act, o)
	}
}

// runConn runs one connector function in its own goroutine and serves its tx committer until it returns.
func (mw *MW) runConn(i int, c *Conn, f func()) (panicked string, timedOut bool) {
	done := make(chan string, 1)
	go func() {
		defer func() {
			if r := recover(); r != nil {
				done <- fmt.Sprint(r)
			}
		}()
		f()
		done <- ""
	}()
	deadline := time.After(20 * time.Second)
	for {
		select {
		case p := <-done:
			return p, false
		case <-deadline:
			return "", true
		default:
		}
		if !c.Ctx.TxCommitter.VerifDrain(func(msgs []sdk.Msg) { mw.deliver(i, c, msgs) }) {
			time.Sleep(200 * time.Microsecond)
		}
	}
}

func (mw *MW) subJSON(s *mnt.Submission) J {
	w := mw.W
	signers := []interface{}{}
	for _, a := range s.Signers {
		signers = append(signers, w.N.Name("0x"+strings.TrimPrefix(a, "Mx")))
	}
	tx := J{"nonce": s.Nonce, "signers": signers, "payload": s.Payload, "decoded": s.DecodeOk, "sender_ok": strings.EqualFold(s.Sender, mw.C.Multisig)}
	switch s.Type {
	case 13:
		tx["type"] = "multisend"
		items := []interface{}{}
		for _, it := range s.Items {
			items = append(items, []interface{}{w.ExtTokenName(Chain, strconv.FormatUint(it.Coin, 10)), w.N.Name("0x" + strings.TrimPrefix(it.To, "Mx")), world.Num(sdk.NewIntFromBigInt(it.Value))})
		}
		tx["items"] = items
	case 18:
		tx["type"] = "editmsig"
		ms := []interface{}{}
		for k := range s.Addrs {
			ms = append(ms, []interface{}{w.N.Name("0x" + strings.TrimPrefix(s.Addrs[k], "Mx")), s.Weights[k]})
		}
		tx["m"] = ms
		tx["thr"] = s.Thr
	default:
		tx["type"] = "other"
	}
	return tx
}

// afterSubmission appends the reference event of an accepted multisig transaction.
func (mw *MW) afterSubmission(s *mnt.Submission, stepName string) J {
	if !s.Accepted {
		return nil
	}
	w := mw.W
	w.N.RegisterTxHash(s.Hash, stepName)
	n := uint64(len(mw.Ref) + 1)
	var ev J
	switch s.Type {
	case 13:
		// which hub batch carries this multisig nonce as its sequence number
		tok, bn := "?", uint64(0)
		ctx := w.Ctx()
		w.K.Mhub2.IterateOutgoingTxsByType(ctx, mhubtypes.ChainID(Chain), mhubtypes.BatchTxPrefixByte, func(_ []byte, otx mhubtypes.OutgoingTx) bool {
			b := otx.(*mhubtypes.BatchTx)
			if b.Sequence == s.Nonce {
				tok, bn = w.ExtTokenName(Chain, b.ExternalTokenId), b.BatchNonce
				return true
			}
			return false
		})
		ev = J{"t": "Exec", "n": n, "tok": tok, "bn": bn, "eh": s.Height, "txh": stepName, "fp": 0, "fpr": ""}
	case 18:
		ssn, _ := strconv.Atoi(s.Payload)
		ms := []interface{}{}
		for k := range s.Addrs {
			ms = append(ms, []interface{}{w.N.Name("0x" + strings.TrimPrefix(s.Addrs[k], "Mx")), world.Limbs(s.Weights[k])})
		}
		ev = J{"t": "SSExec", "n": n, "ssn": uint64(ssn), "eh": s.Height, "m": ms, "txh": stepName}
	}
	mw.Ref = append(mw.Ref, ev)
	return ev
}

// ------------------------------------------------------------------------------------------------ actions
var cmdTypes = map[string]string{"hub": "send_to_hub", "ethereum": "send_to_ethereum", "bsc": "send_to_bsc"}

// Exec runs one scripted action and writes its trace line(s).
func (mw *MW) Exec(i int, a world.Act) {
	w := mw.W
	switch a.S("k") {
	case "MntMine":
		w.BumpStep()
		mw.C.Mine(int(a.I("n")))
		mw.stepLine(i, a, world.Outcome{Out: "ok"})
	case "MntDeposit":
		// a user sends coins to the multisig (or elsewhere) with a command payload.
		//   class: ok | feehigh | notjson | badrcv | badtype | negfee | other | edit
		w.BumpStep()
		user := w.N.Ext(a.S("user"))
		coin, _ := strconv.ParseUint(w.ExtTokenId(Chain, a.S("tok")), 10, 64)
		amt := a.Int("amt")
		fee := a.Int("fee")
		class := a.S("class")
		rch := a.S("rch")
		var rcv string
		if rch == "hub" {
			rcv = w.N.AddrString(a.S("rcv"))
		} else {
			rcv = w.N.ExtString(a.S("rcv"))
		}
		cmd := map[string]string{"type": cmdTypes[rch], "recipient": rcv, "fee": fee.String()}
		to := mw.C.Multisig
		switch class {
		case "feehigh":
			cmd["fee"] = amt.String()
		case "negfee":
			cmd["fee"] = "-1"
		case "badrcv":
			cmd["recipient"] = "nobody"
		case "badtype":
			cmd["type"] = "send_to_mars"
		case "other":
			to = "Mx1111111111111111111111111111111111111111"
		}
		payload, _ := json.Marshal(cmd)
		if class == "notjson" {
			payload = []byte("hello")
		}
		tx := mnt.Tx{Type: 1, From: mx(user.Addr.Hex()), To: to, Coin: coin, Value: amt.BigInt(), Payload: payload}
		if class == "edit" {
			// the members edit the multisig by hand (same members): a multisig transaction that is no bridge event
			tx = mnt.Tx{Type: 18, From: mw.C.Multisig, Payload: []byte("manual"), Threshold: mw.C.Threshold,
				Weights: append([]uint64{}, mw.C.Weights...), Addresses: append([]string{}, mw.C.Addresses...), Nonce: mw.C.BumpTxCount()}
		}
		h, txs := mw.C.AddBlock([]mnt.Tx{tx})
		name := fmt.Sprintf("x%d", w.StepNo())
		w.N.RegisterTxHash(txs[0].Hash, name)
		o := world.Outcome{Out: "ok"}
		if class == "ok" {
			n := uint64(len(mw.Ref) + 1)
			var ev J
			if rch == "hub" {
				ev = J{"t": "ToHub", "n": n, "tok": a.S("tok"), "amt": world.Num(amt), "snd": a.S("user"), "rcv": a.S("rcv"), "eh": h, "txh": name}
			} else {
				ev = J{"t": "Deposit", "n": n, "tok": a.S("tok"), "amt": world.Num(amt), "fee": world.Num(fee), "snd": a.S("user"), "rch": rch, "rcv": a.S("rcv"), "eh": h, "txh": name}
			}
			mw.Ref = append(mw.Ref, ev)
			o.Ev = ev
		}
		mw.stepLine(i, a, o)
	case "ConnScan", "ConnBatches", "ConnValsets", "ConnRestart", "ConnCrashScan", "ConnReinit":
		c := mw.Conns[a.S("by")]
		if c == nil {
			mw.Infra = "no connector for " + a.S("by")
			return
		}
		if !w.InBlk && a.S("k") != "ConnRestart" && a.S("k") != "ConnReinit" {
			w.BumpStep()
			mw.stepLine(i, a, J{"out": "err", "log": "not in block"})
			return
		}
		w.BumpStep()
		// marker line: the state the connector sees when it is called
		mw.stepLine(i, world.Act{"k": "ConnCall", "by": a.S("by"), "fn": a.S("k"), "i": i}, world.Outcome{Out: "ok"})
		if a.S("k") == "ConnReinit" {
			// the operator sets the connector up anew: no status file, the configuration names a start block and the
			// nonces that go with it (taken from the reference numbering of the chain up to that block)
			b := a.U("at")
			if b > uint64(len(mw.C.Blocks)) {
				b = uint64(len(mw.C.Blocks))
			}
			st := connmain.Cfg().Minter
			st.StartBlock, st.StartEventNonce, st.StartBatchNonce, st.StartValsetNonce = b, 1, 1, 0
			for _, e := range mw.Ref {
				if toU(e["eh"]) <= b {
					st.StartEventNonce++
					switch e["t"] {
					case "Exec":
						st.StartBatchNonce++
					case "SSExec":
						st.StartValsetNonce = toU(e["ssn"])
					}
				}
			}
			os.Remove(c.StatusFile)
			c.Start = &st
			c.Ctx.LoadStatus(c.StatusFile, st)
		}
		cur0 := mw.cursor(c)
		mw.subs = nil
		mw.outs = []interface{}{}
		mw.crashMode, mw.crashSnap = "", nil
		if a.S("k") == "ConnCrashScan" {
			mw.crashMode = a.S("when")
			if mw.crashMode == "" {
				mw.crashMode = "after"
			}
		}
		var ack uint64
		panicked, timedOut := mw.runConn(i, c, func() {
			switch a.S("k") {
			case "ConnScan":
				c.Ctx = connmain.RelayMinterEvents(c.Ctx)
			case "ConnBatches":
				connmain.RelayBatches(c.Ctx)
			case "ConnValsets":
				connmain.RelayValsets(c.Ctx)
			case "ConnCrashScan":
				// the process is killed while it hands its claims to the hub: the status file keeps what had been
				// persisted up to that moment (snapshot taken when CommitTx is called), the cursor in memory is lost.
				// when = "after": the hub has committed the claims; "before": they never reached it.
				_ = connmain.RelayMinterEvents(c.Ctx)
				if mw.crashSnap != nil {
					if mw.crashSnap.present {
						os.WriteFile(c.StatusFile, mw.crashSnap.data, 0o644)
					} else {
						os.Remove(c.StatusFile)
					}
				}
				c.Ctx.LoadStatus(c.StatusFile, mw.startOf(c)) // (the process is down until a ConnRestart)
			case "ConnReinit":
				ack = cosmos.GetLastMinterNonce(c.Ctx.OrcAddress.String(), c.Ctx.CosmosConn)
				c.Ctx = minter.GetLatestMinterBlockAndNonce(c.Ctx, ack)
			case "ConnRestart":
				// the process starts again: the cursor comes from the status file, the hub tells the last event it saw from us
				c.Ctx.LoadStatus(c.StatusFile, mw.startOf(c))
				ack = cosmos.GetLastMinterNonce(c.Ctx.OrcAddress.String(), c.Ctx.CosmosConn)
				c.Ctx = minter.GetLatestMinterBlockAndNonce(c.Ctx, ack)
			}
		})
		mw.crashMode = ""
		res := J{"out": "ok", "cur0": cur0, "cur1": mw.cursor(c), "head": uint64(len(mw.C.Blocks)), "ack": ack}
		if timedOut {
			res["out"] = "timeout"
			w.Dead = a.S("k") + ": connector call did not return"
		} else if panicked != "" {
			res["out"] = "panic"
			res["log"] = world.ShortLog(panicked)
		}
		// submissions to the Minter chain made during the call
		subs := []interface{}{}
		for k, s := range mw.subs {
			sj := mw.subJSON(s)
			sj["accepted"] = s.Accepted
			sj["reason"] = s.Reason
			name := fmt.Sprintf("x%d_%d", w.StepNo(), k)
			if ev := mw.afterSubmission(s, name); ev != nil {
				sj["ev"] = ev
			}
			subs = append(subs, sj)
		}
		res["subs"] = subs
		res["outs"] = mw.outs
		mw.stepLine(i, a, res)
	case "OrcRelay": // a pass of the real oracle service of a validator (prices / holders feed into the hub's fee arithmetic)
		if mw.orc == nil {
			s, err := osvc.New(w, mw.emit)
			if err != nil {
				mw.Infra = "oracle service: " + err.Error()
				return
			}
			mw.orc = s
		}
		mw.orc.Relay(i, a)
	default:
		o := w.Exec(a)
		line := J{"k": "step", "i": i, "act": w.Canon(a), "res": o, "post": mw.Project()}
		mw.emit(line)
	}
}

func toU(v interface{}) uint64 {
	switch x := v.(type) {
	case uint64:
		return x
	case int:
		return uint64(x)
	case int64:
		return uint64(x)
	case float64:
		return uint64(x)
	}
	n, _ := strconv.ParseUint(fmt.Sprint(v), 10, 64)
	return n
}

// helpers used by the driver binary
func BigOf(s string) *big.Int { b, _ := new(big.Int).SetString(s, 10); return b }

func SortedVals(m map[string]*Conn) []string {
	var out []string
	for k := range m {
		out = append(out, k)
	}
	sort.Strings(out)
	return out
}
