package world

import (
	"bytes"
	"crypto/sha256"
	"encoding/binary"
	"encoding/hex"
	"fmt"
	"math/big"
	"sort"
	"strings"

	"github.com/cosmos/cosmos-sdk/store/prefix"
	sdk "github.com/cosmos/cosmos-sdk/types"
	authtypes "github.com/cosmos/cosmos-sdk/x/auth/types"
	gethcommon "github.com/ethereum/go-ethereum/common"
	gethcrypto "github.com/ethereum/go-ethereum/crypto"

	mhubtypes "github.com/MinterTeam/mhub2/module/x/mhub2/types"
	oracletypes "github.com/MinterTeam/mhub2/module/x/oracle/types"
)

// J is a JSON object of the trace.
type J map[string]interface{}

var maxSmall = big.NewInt(1 << 30)

// num renders an integer as a JSON number when TLC can hold it (|x| < 2^30), else as a decimal string.
func num(i sdk.Int) interface{} {
	if i.IsNil() {
		return "nil"
	}
	b := i.BigInt()
	if b.CmpAbs(maxSmall) < 0 {
		return b.Int64()
	}
	return b.String()
}

func unum(u uint64) interface{} {
	if u < 1<<30 {
		return int64(u)
	}
	return fmt.Sprint(u)
}

// limbs renders a value below 2^48 as [hi, lo] with lo a 16 bit limb (TLC integers are 32 bit).
func limbs(u uint64) []int64 { return []int64{int64(u >> 16), int64(u & 0xffff)} }

func (w *World) mstore(ctx sdk.Context) sdk.KVStore {
	return ctx.KVStore(w.App.GetKey(mhubtypes.StoreKey))
}

func (w *World) rawU64(ctx sdk.Context, key []byte) uint64 {
	bz := w.mstore(ctx).Get(key)
	if len(bz) != 8 {
		return 0
	}
	return binary.BigEndian.Uint64(bz)
}

func (w *World) denomOf(ctx sdk.Context, tokenId uint64) string {
	info, err := w.K.Mhub2.TokenIdToTokenInfoLookup(ctx, tokenId)
	if err != nil {
		return fmt.Sprintf("token/%d", tokenId)
	}
	return info.Denom
}

func (w *World) projTransfer(ctx sdk.Context, chain string, s *mhubtypes.SendToExternal) J {
	return J{
		"id": unum(s.Id), "s": w.N.Name(s.Sender), "d": w.N.Name(s.ExternalRecipient),
		"tok": w.ExtTokenName(chain, s.Token.ExternalTokenId), "tid": unum(s.Token.TokenId),
		"a": num(s.Token.Amount), "f": num(s.Fee.Amount), "c": num(s.ValCommission.Amount),
		"ftok": w.ExtTokenName(chain, s.Fee.ExternalTokenId),
		"x":    w.N.HashName(s.TxHash), "ct": int64(s.CreatedAt) - GenesisTime.Unix(),
		"ra": w.N.Name(s.RefundAddress), "rc": s.RefundChainId, "ch": s.ChainId,
	}
}

func (w *World) signerOf(digest []byte, sig []byte) string {
	if len(sig) < 65 || digest == nil {
		return "?"
	}
	c := make([]byte, 65)
	copy(c, sig[:65])
	if c[64] == 27 || c[64] == 28 {
		c[64] -= 27
	}
	h := gethcrypto.Keccak256Hash(append([]byte("\x19Ethereum Signed Message:\n32"), digest...))
	pk, err := gethcrypto.SigToPub(h.Bytes(), c)
	if err != nil {
		return "?"
	}
	return w.N.Name(gethcrypto.PubkeyToAddress(*pk).Hex())
}

func projMembers(w *World, ms []*mhubtypes.ExternalSigner) []interface{} {
	out := make([]interface{}, 0, len(ms))
	for _, m := range ms {
		out = append(out, []interface{}{w.N.Name(m.ExternalAddress), limbs(m.Power)})
	}
	return out
}

// ProjectEvent renders an external event with model names.
func (w *World) ProjectEvent(chain string, e mhubtypes.ExternalEvent) J {
	switch ev := e.(type) {
	case *mhubtypes.TransferToChainEvent:
		return J{"t": "Deposit", "n": unum(ev.EventNonce), "tok": w.ExtTokenName(chain, ev.ExternalCoinId), "amt": num(ev.Amount), "fee": num(ev.Fee),
			"snd": w.N.Name(ev.Sender), "rch": ev.ReceiverChainId, "rcv": w.N.Name(ev.ExternalReceiver), "eh": unum(ev.ExternalHeight), "txh": w.N.HashName(ev.TxHash)}
	case *mhubtypes.SendToHubEvent:
		return J{"t": "ToHub", "n": unum(ev.EventNonce), "tok": w.ExtTokenName(chain, ev.ExternalCoinId), "amt": num(ev.Amount),
			"snd": w.N.Name(ev.Sender), "rcv": w.N.Name(ev.CosmosReceiver), "eh": unum(ev.ExternalHeight), "txh": w.N.HashName(ev.TxHash)}
	case *mhubtypes.BatchExecutedEvent:
		return J{"t": "Exec", "n": unum(ev.EventNonce), "tok": w.ExtTokenName(chain, ev.ExternalCoinId), "bn": unum(ev.BatchNonce), "eh": unum(ev.ExternalHeight),
			"txh": w.N.HashName(ev.TxHash), "fp": num(ev.FeePaid), "fpr": w.N.Name(ev.FeePayer)}
	case *mhubtypes.SignerSetTxExecutedEvent:
		return J{"t": "SSExec", "n": unum(ev.EventNonce), "ssn": unum(ev.SignerSetTxNonce), "eh": unum(ev.ExternalHeight), "m": projMembers(w, ev.Members), "txh": w.N.HashName(ev.TxHash)}
	case *mhubtypes.ContractCallExecutedEvent:
		return J{"t": "CCExec", "n": unum(ev.EventNonce), "scope": string(ev.InvalidationScope), "in": unum(ev.InvalidationNonce), "eh": unum(ev.ExternalHeight), "txh": w.N.HashName(ev.TxHash)}
	}
	return J{"t": "?"}
}

func (w *World) projectChain(ctx sdk.Context, chain string) J {
	k := w.K.Mhub2
	cid := mhubtypes.ChainID(chain)
	gid := []byte(w.Cfg.GravityId)

	pool := []interface{}{}
	{
		var list []*mhubtypes.SendToExternal
		k.IterateUnbatchedSendToExternals(ctx, cid, func(s *mhubtypes.SendToExternal) bool { list = append(list, s); return false })
		// keep store order reversed = ascending key order is not needed; sort by id for a canonical form
		sort.SliceStable(list, func(i, j int) bool { return list[i].Id < list[j].Id })
		for _, s := range list {
			pool = append(pool, w.projTransfer(ctx, chain, s))
		}
	}

	type otxRec struct {
		idx []byte
		j   J
	}
	bats := []interface{}{}
	sigsOut := []interface{}{}
	addSigs := func(desc J, otx mhubtypes.OutgoingTx) {
		idx := otx.GetStoreIndex(cid)
		sigs := k.GetExternalSignatures(ctx, cid, idx)
		if len(sigs) == 0 {
			return
		}
		var digest []byte
		func() {
			defer func() { recover() }()
			digest = otx.GetCheckpoint(gid)
		}()
		by := J{}
		for valStr, sig := range sigs {
			by[w.N.Name(valStr)] = w.signerOf(digest, sig)
		}
		sigsOut = append(sigsOut, J{"tx": desc, "by": by})
	}
	{
		var list []*mhubtypes.BatchTx
		k.IterateOutgoingTxsByType(ctx, cid, mhubtypes.BatchTxPrefixByte, func(_ []byte, otx mhubtypes.OutgoingTx) bool {
			list = append(list, otx.(*mhubtypes.BatchTx))
			return false
		})
		sort.SliceStable(list, func(i, j int) bool { return list[i].BatchNonce < list[j].BatchNonce })
		for _, b := range list {
			txs := []interface{}{}
			ids := []interface{}{}
			for _, s := range b.Transactions {
				txs = append(txs, w.projTransfer(ctx, chain, s))
				ids = append(ids, unum(s.Id))
			}
			tok := w.ExtTokenName(chain, b.ExternalTokenId)
			bats = append(bats, J{"n": unum(b.BatchNonce), "tok": tok, "ids": ids, "txs": txs, "to": unum(b.Timeout), "ht": unum(b.Height), "seq": unum(b.Sequence)})
			addSigs(J{"t": "bat", "tok": tok, "n": unum(b.BatchNonce)}, b)
		}
	}
	sss := []interface{}{}
	{
		list := k.GetSignerSetTxs(ctx, cid)
		sort.SliceStable(list, func(i, j int) bool { return list[i].Nonce < list[j].Nonce })
		for _, s := range list {
			sss = append(sss, J{"n": unum(s.Nonce), "ht": unum(s.Height), "seq": unum(s.Sequence), "m": projMembers(w, s.Signers)})
			addSigs(J{"t": "ss", "n": unum(s.Nonce)}, s)
		}
	}
	ccs := []interface{}{}
	k.IterateOutgoingTxsByType(ctx, cid, mhubtypes.ContractCallTxPrefixByte, func(_ []byte, otx mhubtypes.OutgoingTx) bool {
		c := otx.(*mhubtypes.ContractCallTx)
		ccs = append(ccs, J{"scope": string(c.InvalidationScope), "n": unum(c.InvalidationNonce), "to": unum(c.Timeout), "ht": unum(c.Height), "seq": unum(c.Sequence)})
		addSigs(J{"t": "cc", "scope": string(c.InvalidationScope), "n": unum(c.InvalidationNonce)}, c)
		return false
	})

	loh := k.GetLastObservedExternalBlockHeight(ctx, cid)
	cnt := J{
		"txid": unum(w.rawU64(ctx, append([]byte{mhubtypes.LastSendToExternalIDKey}, cid.Bytes()...))),
		"bn":   unum(w.rawU64(ctx, append([]byte{mhubtypes.LastOutgoingBatchNonceKey}, cid.Bytes()...))),
		"seq":  unum(w.rawU64(ctx, append([]byte{mhubtypes.OutgoingSequence}, cid.Bytes()...))),
		"ssn":  unum(k.GetLatestSignerSetTxNonce(ctx, cid)),
		"lon":  unum(k.GetLastObservedEventNonce(ctx, cid)),
		"lohc": unum(loh.CosmosHeight), "lohe": unum(loh.ExternalHeight),
	}
	loss := J{}
	if ss := k.GetLastObservedSignerSetTx(ctx, cid); ss != nil {
		loss = J{"n": unum(ss.Nonce), "m": projMembers(w, ss.Signers)}
	}

	votes := []interface{}{}
	{
		type vr struct {
			n   uint64
			cid string
			j   J
		}
		var list []vr
		store := prefix.NewStore(w.mstore(ctx), append([]byte{mhubtypes.ExternalEventVoteRecordKey}, cid.Bytes()...))
		it := store.Iterator(nil, nil)
		for ; it.Valid(); it.Next() {
			var rec mhubtypes.ExternalEventVoteRecord
			if err := w.App.AppCodec().Unmarshal(it.Value(), &rec); err != nil {
				continue
			}
			ev, err := mhubtypes.UnpackEvent(rec.Event)
			if err != nil {
				continue
			}
			voters := []interface{}{}
			for _, v := range rec.Votes {
				voters = append(voters, w.N.Name(v))
			}
			key := it.Key()
			h := ""
			if len(key) >= 8 {
				h = hex.EncodeToString(key[8:])
				if len(h) > 12 {
					h = h[:12]
				}
			}
			list = append(list, vr{ev.GetEventNonce(), h, J{"n": unum(ev.GetEventNonce()), "cid": h, "ev": w.ProjectEvent(chain, ev), "voters": voters, "acc": rec.Accepted}})
		}
		it.Close()
		sort.SliceStable(list, func(i, j int) bool {
			if list[i].n != list[j].n {
				return list[i].n < list[j].n
			}
			return list[i].cid < list[j].cid
		})
		for _, v := range list {
			votes = append(votes, v.j)
		}
	}

	lnv := J{}
	{
		store := prefix.NewStore(w.mstore(ctx), append([]byte{mhubtypes.LastEventNonceByValidatorKey}, cid.Bytes()...))
		it := store.Iterator(nil, nil)
		for ; it.Valid(); it.Next() {
			lnv[w.N.Name(sdk.ValAddress(it.Key()).String())] = unum(binary.BigEndian.Uint64(it.Value()))
		}
		it.Close()
	}

	keys := J{"ve": J{}, "ov": J{}, "eo": J{}}
	{
		store := prefix.NewStore(w.mstore(ctx), append([]byte{mhubtypes.ValidatorExternalAddressKey}, cid.Bytes()...))
		it := store.Iterator(nil, nil)
		for ; it.Valid(); it.Next() {
			keys["ve"].(J)[w.N.Name(sdk.ValAddress(it.Key()).String())] = w.N.Name(gethcommon.BytesToAddress(it.Value()).Hex())
		}
		it.Close()
		store = prefix.NewStore(w.mstore(ctx), append([]byte{mhubtypes.OrchestratorValidatorAddressKey}, cid.Bytes()...))
		it = store.Iterator(nil, nil)
		for ; it.Valid(); it.Next() {
			keys["ov"].(J)[w.N.Name(sdk.AccAddress(it.Key()).String())] = w.N.Name(sdk.ValAddress(it.Value()).String())
		}
		it.Close()
		store = prefix.NewStore(w.mstore(ctx), append([]byte{mhubtypes.ExternalOrchestratorAddressKey}, cid.Bytes()...))
		it = store.Iterator(nil, nil)
		for ; it.Valid(); it.Next() {
			keys["eo"].(J)[w.N.Name(gethcommon.BytesToAddress(it.Key()).Hex())] = w.N.Name(sdk.AccAddress(it.Value()).String())
		}
		it.Close()
	}

	return J{"pool": pool, "bat": bats, "ss": sss, "cc": ccs, "cnt": cnt, "loss": loss, "votes": votes, "lnv": lnv, "sigs": sigsOut, "keys": keys,
		"q": w.projectQueries(ctx, chain)}
}

// projectQueries records what the relayer-facing gRPC queries answer in this state: the confirmations of every
// stored outgoing tx (external address reported + who really signed) and, per validator, the unsigned txs.
func (w *World) projectQueries(ctx sdk.Context, chain string) J {
	k := w.K.Mhub2
	cid := mhubtypes.ChainID(chain)
	gid := []byte(w.Cfg.GravityId)
	c := sdk.WrapSDKContext(ctx)
	confs := []interface{}{}
	for _, ss := range k.GetSignerSetTxs(ctx, cid) {
		res, err := k.SignerSetTxConfirmations(c, &mhubtypes.SignerSetTxConfirmationsRequest{SignerSetNonce: ss.Nonce, ChainId: chain})
		if err != nil || len(res.Signatures) == 0 {
			continue
		}
		l := []interface{}{}
		for _, sg := range res.Signatures {
			l = append(l, []interface{}{w.N.Name(sg.ExternalSigner), w.signerOf(ss.GetCheckpoint(gid), sg.Signature)})
		}
		confs = append(confs, J{"tx": J{"t": "ss", "n": unum(ss.Nonce)}, "list": l})
	}
	k.IterateOutgoingTxsByType(ctx, cid, mhubtypes.BatchTxPrefixByte, func(_ []byte, otx mhubtypes.OutgoingTx) bool {
		b := otx.(*mhubtypes.BatchTx)
		res, err := k.BatchTxConfirmations(c, &mhubtypes.BatchTxConfirmationsRequest{BatchNonce: b.BatchNonce, ExternalTokenId: b.ExternalTokenId, ChainId: chain})
		if err != nil || len(res.Signatures) == 0 {
			return false
		}
		l := []interface{}{}
		for _, sg := range res.Signatures {
			l = append(l, []interface{}{w.N.Name(sg.ExternalSigner), w.signerOf(b.GetCheckpoint(gid), sg.Signature)})
		}
		confs = append(confs, J{"tx": J{"t": "bat", "tok": w.ExtTokenName(chain, b.ExternalTokenId), "n": unum(b.BatchNonce)}, "list": l})
		return false
	})
	unsigned := J{}
	for _, vc := range w.Cfg.Vals {
		addr := w.N.Acct(vc.Name).Addr.String()
		u := J{"ok": true, "ss": []interface{}{}, "bat": []interface{}{}}
		if res, err := k.UnsignedSignerSetTxs(c, &mhubtypes.UnsignedSignerSetTxsRequest{Address: addr, ChainId: chain}); err == nil {
			l := []interface{}{}
			for _, ss := range res.SignerSets {
				l = append(l, unum(ss.Nonce))
			}
			u["ss"] = l
		} else {
			u["ok"] = false
		}
		if res, err := k.UnsignedBatchTxs(c, &mhubtypes.UnsignedBatchTxsRequest{Address: addr, ChainId: chain}); err == nil {
			l := []interface{}{}
			for _, b := range res.Batches {
				l = append(l, []interface{}{w.ExtTokenName(chain, b.ExternalTokenId), unum(b.BatchNonce)})
			}
			u["bat"] = l
		} else {
			u["ok"] = false
		}
		unsigned[vc.Name] = u
	}
	return J{"conf": confs, "unsigned": unsigned}
}

// TrackedAccounts lists the account names whose balances are projected.
func (w *World) TrackedAccounts() []string {
	set := map[string]bool{"a1": true, "a2": true, "a3": true}
	for u := range w.Cfg.Users {
		set[u] = true
	}
	out := make([]string, 0, len(set))
	for k := range set {
		out = append(out, k)
	}
	sort.Strings(out)
	return out
}

// Project computes the abstraction function: the abstract state of the specification for the current
// (uncommitted inside a block, committed otherwise) application state.
func (w *World) Project() J {
	ctx := w.Ctx()
	out := J{"h": w.H, "t": w.T.Unix() - GenesisTime.Unix(), "inb": w.InBlk}
	if w.Dead != "" {
		out["dead"] = w.Dead
		return out
	}

	stk := J{}
	for _, vc := range w.Cfg.Vals {
		va := sdk.ValAddress(w.N.Acct(vc.Name).Addr)
		v, found := w.K.Staking.GetValidator(ctx, va)
		if !found {
			stk[vc.Name] = J{"b": false, "p": 0, "j": false, "x": false}
			continue
		}
		stk[vc.Name] = J{"b": v.IsBonded(), "p": w.K.Staking.GetLastValidatorPower(ctx, va) / w.Cfg.Scale(), "j": v.Jailed, "x": true,
			"tk": num(v.Tokens.Quo(sdk.DefaultPowerReduction).QuoRaw(w.Cfg.Scale()))}
	}
	out["stk"] = stk
	out["tot"] = num(w.K.Staking.GetLastTotalPower(ctx).QuoRaw(w.Cfg.Scale()))

	bal := J{}
	denoms := w.Cfg.Denoms
	addBal := func(name string, addr sdk.AccAddress) {
		b := J{}
		for _, d := range denoms {
			b[d] = num(w.K.Bank.GetBalance(ctx, addr, d).Amount)
		}
		bal[name] = b
	}
	for _, a := range w.TrackedAccounts() {
		addBal(a, w.N.Acct(a).Addr)
	}
	addBal("tmp", mhubtypes.TempAddress)
	addBal("mod", authtypes.NewModuleAddress(mhubtypes.ModuleName))
	out["bal"] = bal
	sup := J{}
	for _, d := range denoms {
		sup[d] = num(w.K.Bank.GetSupply(ctx, d).Amount)
	}
	out["sup"] = sup

	ch := J{}
	for _, c := range w.Cfg.Chains {
		ch[c] = w.projectChain(ctx, c)
	}
	out["ch"] = ch

	st := J{}
	fr := J{}
	{
		it := prefix.NewStore(w.mstore(ctx), []byte{mhubtypes.TxStatusKey}).Iterator(nil, nil)
		for ; it.Valid(); it.Next() {
			var s mhubtypes.TxStatus
			if err := w.App.AppCodec().Unmarshal(it.Value(), &s); err == nil {
				st[w.N.HashName(string(it.Key()))] = []interface{}{strings.TrimPrefix(s.Status.String(), "TX_STATUS_"), w.N.HashName(s.OutTxHash)}
			}
		}
		it.Close()
		it = prefix.NewStore(w.mstore(ctx), []byte{mhubtypes.TxFeeRecordKey}).Iterator(nil, nil)
		for ; it.Valid(); it.Next() {
			var r mhubtypes.TxFeeRecord
			if err := w.App.AppCodec().Unmarshal(it.Value(), &r); err == nil {
				fr[w.N.HashName(string(it.Key()))] = []interface{}{num(r.ValCommission), num(r.ExternalFee)}
			}
		}
		it.Close()
	}
	out["st"] = st
	out["fr"] = fr
	out["or"] = w.projectOracle(ctx)
	out["tok"] = w.projectTokens(ctx)
	if w.Evm != nil {
		out["evm"] = w.ProjectEvm()
	}
	return out
}

func (w *World) projectTokens(ctx sdk.Context) []interface{} {
	out := []interface{}{}
	for _, t := range w.K.Mhub2.GetTokenInfos(ctx).TokenInfos {
		out = append(out, J{"id": unum(t.Id), "denom": t.Denom, "chain": t.ChainId, "ext": w.ExtTokenName(t.ChainId, t.ExternalTokenId), "dec": unum(t.ExternalDecimals), "rate": t.Commission.String()})
	}
	return out
}

// decTimes renders a Dec multiplied by scale as an integer when exact and small, else as the Dec string.
func decScaled(d sdk.Dec, scale int64) interface{} {
	if d.IsNil() {
		return "nil"
	}
	x := d.MulInt64(scale)
	if x.IsInteger() {
		return num(x.TruncateInt())
	}
	return d.String()
}

// holderName is the model name of a holder-list address; the list is matched case-sensitively against lower-case
// hex by the commission code, so an address that is not in that form keeps its raw spelling
func (w *World) holderName(addr string) string {
	if addr != strings.ToLower(addr) {
		return "raw:" + addr
	}
	return w.N.Name(addr)
}

func (w *World) projectOracle(ctx sdk.Context) J {
	k := w.K.Oracle
	out := J{"ep": unum(k.GetCurrentEpoch(ctx))}
	pr := J{}
	if p := k.GetPrices(ctx); p != nil {
		for _, it := range p.List {
			pr[it.Name] = decScaled(it.Value, 4)
		}
	}
	out["pr"] = pr
	hold := []interface{}{}
	if h := k.GetHolders(ctx); h != nil {
		for _, it := range h.List {
			hold = append(hold, []interface{}{w.holderName(it.Address), num(it.Value)})
		}
	}
	out["hold"] = hold
	holdw := J{}
	if h := k.GetHolders(ctx); h != nil {
		e18 := sdk.NewIntWithDecimal(1, 18)
		for _, it := range h.List {
			holdw[w.holderName(it.Address)] = num(it.Value.Quo(e18))
		}
	}
	out["holdw"] = holdw
	atts := []interface{}{}
	k.IterateAttestaions(ctx, func(_ []byte, att oracletypes.Attestation) bool {
		voters := []interface{}{}
		for _, v := range att.Votes {
			voters = append(voters, w.N.Name(v))
		}
		kind := "price"
		if bytes.Equal(att.ClaimHash, (&oracletypes.MsgHoldersClaim{}).ClaimHash()) {
			kind = "holders"
		}
		atts = append(atts, J{"ep": unum(att.Epoch), "kind": kind, "voters": voters, "obs": att.Observed})
		return false
	})
	out["att"] = atts
	// stored claims of the tracked validators for the current epoch
	claims := []interface{}{}
	ep := k.GetCurrentEpoch(ctx)
	for _, vc := range w.Cfg.Vals {
		acc := w.N.Acct(vc.Name).Addr.String()
		if c := k.GetPriceClaim(ctx, acc, ep); c != nil {
			if gc, ok := c.(*oracletypes.GenericClaim); ok && gc.GetPriceClaim() != nil {
				p := J{}
				for _, it := range gc.GetPriceClaim().GetPrices().List {
					p[it.Name] = decScaled(it.Value, 4)
				}
				claims = append(claims, J{"by": vc.Name, "kind": "price", "ep": unum(ep), "pr": p})
			}
		}
		if c := k.GetHoldersClaim(ctx, acc, ep); c != nil {
			if gc, ok := c.(*oracletypes.GenericClaim); ok && gc.GetHoldersClaim() != nil {
				l := []interface{}{}
				for _, it := range gc.GetHoldersClaim().GetHolders().List {
					l = append(l, []interface{}{w.holderName(it.Address), num(it.Value)})
				}
				claims = append(claims, J{"by": vc.Name, "kind": "holders", "ep": unum(ep), "list": l})
			}
		}
	}
	out["claims"] = claims
	return out
}

// Digest hashes the raw key/value content of the bridge-relevant stores (mhub2, oracle, bank); used for
// failure-atomicity and determinism comparisons.
func (w *World) Digest() string {
	ctx := w.Ctx()
	h := sha256.New()
	for _, name := range []string{"mhub2", "oracle", "bank"} {
		it := ctx.KVStore(w.App.GetKey(name)).Iterator(nil, nil)
		for ; it.Valid(); it.Next() {
			var l [8]byte
			binary.BigEndian.PutUint64(l[:], uint64(len(it.Key())))
			h.Write(l[:])
			h.Write(it.Key())
			binary.BigEndian.PutUint64(l[:], uint64(len(it.Value())))
			h.Write(l[:])
			h.Write(it.Value())
		}
		it.Close()
	}
	return hex.EncodeToString(h.Sum(nil))[:16]
}
