package world

import (
	"encoding/hex"
	"encoding/json"
	"fmt"
	"math/big"
	"os"
	"os/exec"
	"sort"
	"strconv"
	"strings"

	sdk "github.com/cosmos/cosmos-sdk/types"
	banktypes "github.com/cosmos/cosmos-sdk/x/bank/types"
	slashingtypes "github.com/cosmos/cosmos-sdk/x/slashing/types"
	stakingtypes "github.com/cosmos/cosmos-sdk/x/staking/types"
	gethcrypto "github.com/ethereum/go-ethereum/crypto"
	"github.com/gogo/protobuf/proto"

	mhub2 "github.com/MinterTeam/mhub2/module/x/mhub2"
	mhubtypes "github.com/MinterTeam/mhub2/module/x/mhub2/types"
	oracletypes "github.com/MinterTeam/mhub2/module/x/oracle/types"
)

// Act is one scripted action: a JSON object with a kind "k" and kind-specific arguments.
type Act map[string]interface{}

func (a Act) S(k string) string {
	if v, ok := a[k]; ok {
		switch t := v.(type) {
		case string:
			return t
		case float64:
			return big.NewFloat(t).Text('f', 0)
		case json.Number:
			return t.String()
		case int:
			return fmt.Sprint(t)
		case int64:
			return fmt.Sprint(t)
		}
	}
	return ""
}

func (a Act) Has(k string) bool { _, ok := a[k]; return ok }

func (a Act) I(k string) int64 {
	if v, ok := a[k]; ok {
		switch t := v.(type) {
		case float64:
			return int64(t)
		case int:
			return int64(t)
		case int64:
			return t
		case json.Number:
			i, _ := t.Int64()
			return i
		case string:
			i, ok := new(big.Int).SetString(t, 10)
			if ok && i.IsInt64() {
				return i.Int64()
			}
		}
	}
	return 0
}

func (a Act) U(k string) uint64 {
	if v, ok := a[k]; ok {
		if s, ok := v.(string); ok {
			i, ok := new(big.Int).SetString(s, 10)
			if ok && i.IsUint64() {
				return i.Uint64()
			}
		}
	}
	return uint64(a.I(k))
}

// Int parses an integer argument of any size (number or decimal string).
func (a Act) Int(k string) sdk.Int {
	s := a.S(k)
	if s == "" {
		return sdk.ZeroInt()
	}
	i, ok := sdk.NewIntFromString(s)
	if !ok {
		panic("bad integer " + k + "=" + s)
	}
	return i
}

func (a Act) M(k string) Act {
	if v, ok := a[k]; ok {
		if m, ok := v.(map[string]interface{}); ok {
			return Act(m)
		}
	}
	return Act{}
}

func (a Act) L(k string) []interface{} {
	if v, ok := a[k]; ok {
		if l, ok := v.([]interface{}); ok {
			return l
		}
	}
	return nil
}

func asStr(v interface{}) string {
	switch t := v.(type) {
	case string:
		return t
	case float64:
		return big.NewFloat(t).Text('f', 0)
	case json.Number:
		return t.String()
	}
	return fmt.Sprint(v)
}

// BuildEvent constructs a real ExternalEvent from its scripted description.
func (w *World) BuildEvent(chain string, ev Act) (mhubtypes.ExternalEvent, error) {
	tok := w.ExtTokenId(chain, ev.S("tok"))
	txh := ""
	if ev.Has("txh") {
		if t := ev.S("txh"); strings.HasPrefix(t, "raw:") {
			txh = t[4:] // literal value (possibly empty)
		} else {
			txh = w.N.ExtHash(t)
		}
	}
	switch ev.S("t") {
	case "Deposit":
		return &mhubtypes.TransferToChainEvent{
			EventNonce: ev.U("n"), ExternalCoinId: tok, Amount: ev.Int("amt"), Fee: ev.Int("fee"),
			Sender: w.N.ExtString(ev.S("snd")), ReceiverChainId: ev.S("rch"), ExternalReceiver: w.N.ExtString(ev.S("rcv")),
			ExternalHeight: ev.U("eh"), TxHash: txh}, nil
	case "ToHub":
		return &mhubtypes.SendToHubEvent{
			EventNonce: ev.U("n"), ExternalCoinId: tok, Amount: ev.Int("amt"), Sender: w.N.ExtString(ev.S("snd")),
			CosmosReceiver: w.N.AddrString(ev.S("rcv")), ExternalHeight: ev.U("eh"), TxHash: txh}, nil
	case "Exec":
		fpr := ""
		if ev.Has("fpr") {
			fpr = w.N.ExtString(ev.S("fpr"))
		}
		return &mhubtypes.BatchExecutedEvent{
			ExternalCoinId: tok, EventNonce: ev.U("n"), ExternalHeight: ev.U("eh"), BatchNonce: ev.U("bn"),
			TxHash: txh, FeePaid: ev.Int("fp"), FeePayer: fpr}, nil
	case "SSExec":
		var ms []*mhubtypes.ExternalSigner
		for _, m := range ev.L("m") {
			p := m.([]interface{})
			var pw *big.Int
			if l, ok := p[1].([]interface{}); ok && len(l) == 2 { // [hi, lo] 16 bit limbs
				hi, _ := new(big.Int).SetString(asStr(l[0]), 10)
				lo, _ := new(big.Int).SetString(asStr(l[1]), 10)
				pw = new(big.Int).Add(new(big.Int).Lsh(hi, 16), lo)
			} else {
				pw, _ = new(big.Int).SetString(asStr(p[1]), 10)
			}
			ms = append(ms, &mhubtypes.ExternalSigner{ExternalAddress: w.N.ExtString(asStr(p[0])), Power: pw.Uint64()})
		}
		if ms == nil && !ev.Has("nilm") {
			ms = []*mhubtypes.ExternalSigner{}
		}
		return &mhubtypes.SignerSetTxExecutedEvent{EventNonce: ev.U("n"), SignerSetTxNonce: ev.U("ssn"), ExternalHeight: ev.U("eh"), Members: ms, TxHash: txh}, nil
	case "CCExec":
		return &mhubtypes.ContractCallExecutedEvent{EventNonce: ev.U("n"), InvalidationScope: []byte(ev.S("scope")), InvalidationNonce: ev.U("in"), ExternalHeight: ev.U("eh"), TxHash: txh}, nil
	}
	return nil, fmt.Errorf("unknown event type %q", ev.S("t"))
}

// BuildMsgs turns a scripted hub message into real sdk.Msgs and the signing account.
func (w *World) BuildMsgs(a Act) (string, []sdk.Msg, error) {
	switch a.S("k") {
	case "Send":
		from := a.S("from")
		msg := &mhubtypes.MsgSendToExternal{
			Sender:            w.N.AddrString(from),
			ExternalRecipient: w.N.ExtString(a.S("dest")),
			Amount:            sdk.Coin{Denom: a.S("denom"), Amount: a.Int("amt")},
			BridgeFee:         sdk.Coin{Denom: a.S("denom"), Amount: a.Int("fee")},
			ChainId:           a.S("chain"),
		}
		if a.Has("feedenom") {
			msg.BridgeFee.Denom = a.S("feedenom")
		}
		return from, []sdk.Msg{msg}, nil
	case "Cancel":
		from := a.S("from")
		return from, []sdk.Msg{&mhubtypes.MsgCancelSendToExternal{Id: a.U("id"), Sender: w.N.AddrString(from), ChainId: a.S("chain")}}, nil
	case "ReqBatch":
		from := a.S("from")
		return from, []sdk.Msg{&mhubtypes.MsgRequestBatchTx{Denom: a.S("denom"), Signer: w.N.AddrString(from), ChainId: a.S("chain")}}, nil
	case "Claim":
		by := a.S("by")
		evDesc := a.M("ev")
		if evDesc.Has("ref") { // the k-th event the real external contract emitted
			es := w.evmOf(a.S("chain"))
			k := int(evDesc.I("ref"))
			if es == nil || k < 1 || k > len(es.Log) {
				return "", nil, fmt.Errorf("no such external event %d", k)
			}
			evDesc = jsonAct(es.Log[k-1])
		}
		ev, err := w.BuildEvent(a.S("chain"), evDesc)
		if err != nil {
			return "", nil, err
		}
		any, err := mhubtypes.PackEvent(ev)
		if err != nil {
			return "", nil, err
		}
		return by, []sdk.Msg{&mhubtypes.MsgSubmitExternalEvent{Event: any, Signer: w.N.AddrString(by), ChainId: a.S("chain")}}, nil
	case "Confirm":
		by := a.S("by")
		chain := a.S("chain")
		tx := a.M("tx")
		claimed := w.N.ExtString(a.S("ext"))
		var conf mhubtypes.ExternalTxConfirmation
		var sigOver []byte
		ctx := w.Ctx()
		gid := []byte(w.Cfg.GravityId)
		switch tx.S("t") {
		case "ss":
			c := &mhubtypes.SignerSetTxConfirmation{SignerSetNonce: tx.U("n"), ExternalSigner: claimed}
			if otx := w.K.Mhub2.GetOutgoingTx(ctx, mhubtypes.ChainID(chain), c.GetStoreIndex(mhubtypes.ChainID(chain))); otx != nil {
				sigOver = otx.GetCheckpoint(gid)
			}
			conf = c
		case "bat":
			c := &mhubtypes.BatchTxConfirmation{ExternalTokenId: w.ExtTokenId(chain, tx.S("tok")), BatchNonce: tx.U("n"), ExternalSigner: claimed}
			if otx := w.K.Mhub2.GetOutgoingTx(ctx, mhubtypes.ChainID(chain), c.GetStoreIndex(mhubtypes.ChainID(chain))); otx != nil {
				sigOver = otx.GetCheckpoint(gid)
			}
			conf = c
		case "cc":
			c := &mhubtypes.ContractCallTxConfirmation{InvalidationScope: []byte(tx.S("scope")), InvalidationNonce: tx.U("n"), ExternalSigner: claimed}
			if otx := w.K.Mhub2.GetOutgoingTx(ctx, mhubtypes.ChainID(chain), c.GetStoreIndex(mhubtypes.ChainID(chain))); otx != nil {
				sigOver = otx.GetCheckpoint(gid)
			}
			conf = c
		default:
			return "", nil, fmt.Errorf("unknown tx type")
		}
		if sigOver == nil {
			sigOver = gethcrypto.Keccak256([]byte("nothing"))
		}
		key := a.S("key")
		if key == "" {
			key = a.S("ext")
		}
		sig, err := mhubtypes.NewEthereumSignature(sigOver, w.N.Ext(key).Priv)
		if err != nil {
			return "", nil, err
		}
		switch c := conf.(type) {
		case *mhubtypes.SignerSetTxConfirmation:
			c.Signature = sig
		case *mhubtypes.BatchTxConfirmation:
			c.Signature = sig
		case *mhubtypes.ContractCallTxConfirmation:
			c.Signature = sig
		}
		any, err := mhubtypes.PackConfirmation(conf)
		if err != nil {
			return "", nil, err
		}
		return by, []sdk.Msg{&mhubtypes.MsgSubmitExternalTxConfirmation{Confirmation: any, Signer: w.N.AddrString(by), ChainId: chain}}, nil
	case "SetKeys":
		txby := a.S("txby")
		val := a.S("val")
		valAddr := sdk.ValAddress(w.N.Acct(val).Addr)
		sigKey := a.S("sigkey")
		if sigKey == "" {
			sigKey = a.S("ext")
		}
		// the nonce the handler expects is (sequence of the validator account after the ante handler) - 1,
		// i.e. the validator account's sequence before this tx; sigseq shifts it to model stale signatures.
		seq := int64(w.AccSeq(val)) + a.I("sigseq")
		if seq < 0 {
			seq = 999 // any wrong nonce
		}
		sigVal := valAddr.String()
		if a.Has("sigval") {
			sigVal = sdk.ValAddress(w.N.Acct(a.S("sigval")).Addr).String()
		}
		bz, err := proto.Marshal(&mhubtypes.DelegateKeysSignMsg{ValidatorAddress: sigVal, Nonce: uint64(seq)})
		if err != nil {
			return "", nil, err
		}
		sig, err := mhubtypes.NewEthereumSignature(gethcrypto.Keccak256Hash(bz).Bytes(), w.N.Ext(sigKey).Priv)
		if err != nil {
			return "", nil, err
		}
		if b, ok := a["tool"].(bool); ok && b {
			// the signature comes from the operators' real key tool (keys-generator make_delegate_sign <key> <account> <nonce>)
			tool := os.Getenv("VERIF_KEYGEN")
			if tool == "" {
				return "", nil, fmt.Errorf("VERIF_KEYGEN not set")
			}
			acc := w.N.Acct(val).Addr.String()
			if a.Has("sigval") {
				acc = w.N.Acct(a.S("sigval")).Addr.String()
			}
			out, err := exec.Command(tool, "make_delegate_sign", hex.EncodeToString(gethcrypto.FromECDSA(w.N.Ext(sigKey).Priv)), acc, strconv.FormatInt(seq, 10)).Output()
			if err != nil {
				return "", nil, fmt.Errorf("key tool: %v", err)
			}
			sig, err = hex.DecodeString(strings.TrimPrefix(strings.TrimSpace(string(out)), "0x"))
			if err != nil {
				return "", nil, fmt.Errorf("key tool output: %v", err)
			}
		}
		msg := &mhubtypes.MsgDelegateKeys{ValidatorAddress: valAddr.String(), OrchestratorAddress: w.N.AddrString(a.S("orch")),
			ExternalAddress: w.N.ExtString(a.S("ext")), EthSignature: sig, ChainId: a.S("chain")}
		return txby, []sdk.Msg{msg}, nil
	case "BankSend":
		from := a.S("from")
		return from, []sdk.Msg{banktypes.NewMsgSend(w.N.Acct(from).Addr, w.N.Acct(a.S("to")).Addr, sdk.NewCoins(sdk.NewCoin(a.S("denom"), a.Int("amt"))))}, nil
	case "Price":
		by := a.S("by")
		pr := a.M("pr")
		if a.Has("pr4") { // values given as 4 * price (the specification's integral representation)
			pr = Act{}
			for k, v := range a.M("pr4") {
				q, _ := new(big.Int).SetString(asStr(v), 10)
				pr[k] = sdk.NewDecFromBigInt(q).QuoInt64(4).String()
			}
		}
		names := make([]string, 0, len(pr))
		for k := range pr {
			names = append(names, k)
		}
		sort.Strings(names)
		list := &oracletypes.Prices{}
		for _, k := range names {
			s := asStr(pr[k])
			var d sdk.Dec
			if s == "nil" {
				d = sdk.Dec{}
			} else {
				d = sdk.MustNewDecFromStr(s)
			}
			list.List = append(list.List, &oracletypes.Price{Name: k, Value: d})
		}
		return by, []sdk.Msg{&oracletypes.MsgPriceClaim{Epoch: a.U("ep"), Prices: list, Orchestrator: w.N.AddrString(by)}}, nil
	case "Holders":
		by := a.S("by")
		hs := &oracletypes.Holders{}
		for _, it := range a.L("list") {
			p := it.([]interface{})
			v, _ := sdk.NewIntFromString(asStr(p[1]))
			hs.List = append(hs.List, &oracletypes.Holder{Address: holderAddr(w.N, asStr(p[0])), Value: v})
		}
		if a.Has("nolist") { // a claim without the holders field at all
			hs = nil
		}
		return by, []sdk.Msg{&oracletypes.MsgHoldersClaim{Epoch: a.U("ep"), Holders: hs, Orchestrator: w.N.AddrString(by)}}, nil
	case "Unjail":
		v := a.S("val")
		return v, []sdk.Msg{slashingtypes.NewMsgUnjail(sdk.ValAddress(w.N.Acct(v).Addr))}, nil
	}
	return "", nil, fmt.Errorf("unknown message kind %q", a.S("k"))
}

// Stake moves a validator's bonded tokens to the target consensus power by delegating from / undelegating to
// the "del" account (and the validator's own account when more has to be removed). Effective at EndBlock.
func (w *World) Stake(val string, power int64) Outcome {
	ctx := w.Ctx()
	valAddr := sdk.ValAddress(w.N.Acct(val).Addr)
	v, found := w.K.Staking.GetValidator(ctx, valAddr)
	if !found {
		return Outcome{Out: "err", Log: "no validator"}
	}
	target := sdk.TokensFromConsensusPower(power*w.Cfg.Scale(), sdk.DefaultPowerReduction)
	cur := v.Tokens
	if target.GT(cur) {
		o, _ := w.Deliver("del", stakingtypes.NewMsgDelegate(w.N.Acct("del").Addr, valAddr, sdk.NewCoin(BondDenom, target.Sub(cur))))
		return o
	}
	if target.LT(cur) {
		need := cur.Sub(target)
		if d, ok := w.K.Staking.GetDelegation(ctx, w.N.Acct("del").Addr, valAddr); ok {
			have := v.TokensFromShares(d.Shares).TruncateInt()
			take := sdk.MinInt(have, need)
			if take.IsPositive() {
				o, _ := w.Deliver("del", stakingtypes.NewMsgUndelegate(w.N.Acct("del").Addr, valAddr, sdk.NewCoin(BondDenom, take)))
				if o.Out != "ok" {
					return o
				}
				need = need.Sub(take)
			}
		}
		if need.IsPositive() {
			o, _ := w.Deliver(val, stakingtypes.NewMsgUndelegate(w.N.Acct(val).Addr, valAddr, sdk.NewCoin(BondDenom, need)))
			return o
		}
	}
	return Outcome{Out: "ok"}
}

// Gov executes a bridge governance proposal through the module's proposal handler inside a cache context,
// the way the gov module's EndBlocker would run a passed proposal.
func (w *World) Gov(a Act) Outcome {
	if !w.InBlk {
		return Outcome{Out: "err", Log: "not in block"}
	}
	var content interface{}
	switch a.S("p") {
	case "ColdStorage":
		var coins sdk.Coins
		if a.Has("coins") {
			for _, it := range a.L("coins") {
				p := it.([]interface{})
				amt, _ := sdk.NewIntFromString(asStr(p[1]))
				coins = append(coins, sdk.Coin{Denom: asStr(p[0]), Amount: amt})
			}
		} else {
			coins = sdk.Coins{sdk.Coin{Denom: a.S("denom"), Amount: a.Int("amt")}}
		}
		content = mhubtypes.NewColdStorageTransferProposal(mhubtypes.ChainID(a.S("chain")), coins)
	case "TokenInfos":
		var infos []*mhubtypes.TokenInfo
		for _, it := range a.L("tokens") {
			bz, _ := json.Marshal(it)
			var t TokenCfg
			must(json.Unmarshal(bz, &t))
			infos = append(infos, &mhubtypes.TokenInfo{Id: t.Id, Denom: t.Denom, ChainId: t.Chain, ExternalTokenId: w.ExtTokenId(t.Chain, t.Ext),
				ExternalDecimals: t.Dec, Commission: decFrac(t.RateNum, t.RateDen)})
		}
		content = mhubtypes.NewTokenInfosChangeProposal(&mhubtypes.TokenInfos{TokenInfos: infos})
	default:
		return Outcome{Out: "err", Log: "unknown proposal"}
	}
	var herr error
	o := w.guarded("Gov", func() {
		ctx := w.Ctx()
		cctx, write := ctx.CacheContext()
		h := mhub2.NewProposalsHandler(w.K.Mhub2)
		switch c := content.(type) {
		case *mhubtypes.ColdStorageTransferProposal:
			herr = h(cctx, c)
		case *mhubtypes.TokenInfosChangeProposal:
			herr = h(cctx, c)
		}
		if herr == nil {
			write()
		}
	})
	if o.Out == "ok" && herr != nil {
		return Outcome{Out: "err", Log: herr.Error()}
	}
	if o.Out == "ok" && a.S("p") == "TokenInfos" {
		// the harness's own view of the token list follows the governance decision
		var toks []TokenCfg
		for _, it := range a.L("tokens") {
			bz, _ := json.Marshal(it)
			var t TokenCfg
			must(json.Unmarshal(bz, &t))
			toks = append(toks, t)
		}
		w.Cfg.Tokens = toks
		o.Aux = w.Aux()
	}
	return o
}

// Exec runs one scripted action and returns its outcome.
func (w *World) Exec(a Act) Outcome {
	o := w.exec(a)
	if w.Evm != nil && w.Dead == "" {
		w.rememberPublished()
	}
	return o
}

func (w *World) exec(a Act) Outcome {
	w.stepNo++
	switch a.S("k") {
	case "Begin":
		dt := a.I("dt")
		if !a.Has("dt") {
			dt = 1
		}
		return w.BeginBlock(dt)
	case "End":
		o, appHash, evHash := w.EndBlock()
		o.Hash = appHash + ":" + evHash
		return o
	case "Stake":
		return w.Stake(a.S("val"), a.I("p"))
	case "Gov":
		return w.Gov(a)
	case "EvmDeposit", "EvmUpdateValset", "EvmSubmitBatch", "EvmMine":
		o, ev := w.ExecEvm(a)
		o.Ev = ev
		return o
	case "BulkSend": // n identical sends, one transaction each (keeps bulk scenarios short in the script)
		last := Outcome{Out: "ok"}
		for i := int64(0); i < a.I("n"); i++ {
			one := Act{}
			for k, v := range a {
				one[k] = v
			}
			one["k"] = "Send"
			delete(one, "n")
			w.stepNo--
			last = w.exec(one)
			if last.Out != "ok" {
				return last
			}
		}
		return last
	case "Blocks": // n whole blocks without transactions
		var o Outcome
		for i := int64(0); i < a.I("n"); i++ {
			if o = w.BeginBlock(1); o.Out != "ok" {
				return o
			}
			if o, _, _ = w.EndBlock(); o.Out != "ok" {
				return o
			}
		}
		return Outcome{Out: "ok"}
	case "Tx": // several messages of one signer in one transaction (all or nothing)
		by := a.S("by")
		var msgs []sdk.Msg
		for _, it := range a.L("msgs") {
			sub := jsonAct(J(it.(map[string]interface{})))
			signer, ms, err := w.BuildMsgs(sub)
			if err != nil {
				return Outcome{Out: "err", Log: "build: " + err.Error()}
			}
			if signer != by {
				return Outcome{Out: "err", Log: "build: messages of one transaction must share the signer"}
			}
			msgs = append(msgs, ms...)
		}
		bz, err := w.SignTx(w.N.Acct(by), 0, msgs...)
		if err != nil {
			return Outcome{Out: "err", Log: "sign: " + err.Error()}
		}
		o, _ := w.DeliverBytes(bz)
		if o.Hash != "" {
			name := sprintf("h%d", w.stepNo)
			if a.Has("i") {
				name = "h" + a.S("i")
			}
			w.N.RegisterTxHash(o.Hash, name)
			o.Hash = name
		}
		if o.Out == "err" {
			o.Log = shortLog(o.Log)
		}
		return o
	case "ExtDeposit", "ExtExec", "ExtMine", "ExtSSExec", "Note":
		// actions of the modelled external world: nothing happens on the hub
		return Outcome{Out: "ok"}
	}
	signer, msgs, err := w.BuildMsgs(a)
	if err != nil {
		return Outcome{Out: "err", Log: "build: " + err.Error()}
	}
	// stateless validation as CheckTx / the mempool would do it (baseapp runs it in DeliverTx too)
	bz, err := w.SignTx(w.N.Acct(signer), a.I("seqdelta"), msgs...)
	if err != nil {
		return Outcome{Out: "err", Log: "sign: " + err.Error()}
	}
	o, r := w.DeliverBytes(bz)
	if o.Out == "ok" && a.S("k") == "Send" {
		var txMsgData sdk.TxMsgData
		if err := proto.Unmarshal(r.Data, &txMsgData); err == nil && len(txMsgData.Data) > 0 {
			var resp mhubtypes.MsgSendToExternalResponse
			if err := proto.Unmarshal(txMsgData.Data[0].Data, &resp); err == nil {
				o.Id = resp.Id
			}
		}
	}
	if o.Hash != "" {
		name := sprintf("h%d", w.stepNo)
		if a.Has("i") {
			name = "h" + a.S("i")
		}
		if o.Id != 0 { // accepted send: named after the chain and the transfer id it created
			ini := "x"
			switch a.S("chain") {
			case "ethereum":
				ini = "e"
			case "minter":
				ini = "m"
			case "bsc":
				ini = "b"
			}
			name = sprintf("s%s%d", ini, o.Id)
		}
		w.N.RegisterTxHash(o.Hash, name)
		o.Hash = name
	}
	if o.Out == "err" {
		o.Log = shortLog(o.Log)
	}
	return o
}

func shortLog(s string) string {
	if i := strings.Index(s, "\n"); i >= 0 {
		s = s[:i]
	}
	if len(s) > 120 {
		s = s[:120]
	}
	return s
}
