package world

import (
	"crypto/ecdsa"
	"crypto/sha256"
	"encoding/hex"
	"fmt"
	"strings"

	"github.com/cosmos/cosmos-sdk/crypto/keys/ed25519"
	"github.com/cosmos/cosmos-sdk/crypto/keys/secp256k1"
	sdk "github.com/cosmos/cosmos-sdk/types"
	authtypes "github.com/cosmos/cosmos-sdk/x/auth/types"
	gethcommon "github.com/ethereum/go-ethereum/common"
	gethcrypto "github.com/ethereum/go-ethereum/crypto"

	mhubtypes "github.com/MinterTeam/mhub2/module/x/mhub2/types"
)

// Acct is a hub account with a deterministic key derived from its model name.
type Acct struct {
	Name string
	Priv *secp256k1.PrivKey
	Addr sdk.AccAddress
}

// ExtKey is an external (Ethereum style) key with a deterministic private key.
type ExtKey struct {
	Name string
	Priv *ecdsa.PrivateKey
	Addr gethcommon.Address
}

// Names maps model names (v1, o1, a1, e1, x1 ...) to real keys / addresses / hashes and back.
type Names struct {
	accts map[string]*Acct
	exts  map[string]*ExtKey
	cons  map[string]*ed25519.PrivKey
	rev   map[string]string // lower-cased real string -> model name
	txh   map[string]string // real tx hash -> model name
}

func NewNames() *Names {
	n := &Names{accts: map[string]*Acct{}, exts: map[string]*ExtKey{}, cons: map[string]*ed25519.PrivKey{},
		rev: map[string]string{}, txh: map[string]string{}}
	n.rev[strings.ToLower(mhubtypes.TempAddress.String())] = "tmp"
	n.rev["0x0000000000000000000000000000000000000000"] = "zero"
	// the cold storage addresses hard-coded in keeper.GetColdStorageAddr
	n.rev["0x7072558b2b91e62dbed78e9a3453e5c9e01fec5e"] = "cold-minter"
	n.rev["0x58bd8047f441b9d511aee9c581aeb1cab4fe0b6d"] = "cold-ethereum"
	n.rev["0xbcc2fa395c6198096855c932f4087cf1377d28ee"] = "cold-bsc"
	return n
}

func (n *Names) Acct(name string) *Acct {
	if a, ok := n.accts[name]; ok {
		return a
	}
	priv := secp256k1.GenPrivKeyFromSecret([]byte("verif-acct-" + name))
	a := &Acct{Name: name, Priv: priv, Addr: sdk.AccAddress(priv.PubKey().Address())}
	n.accts[name] = a
	n.rev[strings.ToLower(a.Addr.String())] = name
	n.rev[strings.ToLower(sdk.ValAddress(a.Addr).String())] = name
	n.rev[strings.ToLower(hex.EncodeToString(a.Addr))] = name
	n.rev["0x"+strings.ToLower(hex.EncodeToString(a.Addr))] = name
	return a
}

func (n *Names) Cons(name string) *ed25519.PrivKey {
	if c, ok := n.cons[name]; ok {
		return c
	}
	c := ed25519.GenPrivKeyFromSecret([]byte("verif-cons-" + name))
	n.cons[name] = c
	return c
}

func (n *Names) Ext(name string) *ExtKey {
	if e, ok := n.exts[name]; ok {
		return e
	}
	h := sha256.Sum256([]byte("verif-ext-" + name))
	priv, err := gethcrypto.ToECDSA(h[:])
	if err != nil {
		panic(err)
	}
	e := &ExtKey{Name: name, Priv: priv, Addr: gethcrypto.PubkeyToAddress(priv.PublicKey)}
	n.exts[name] = e
	n.rev[strings.ToLower(e.Addr.Hex())] = name
	n.rev[strings.ToLower(e.Addr.Hex()[2:])] = name
	return e
}

// ExtHash maps a model hash name (x1, x2 ..) to a 0x-prefixed 32 byte hash string.
func (n *Names) ExtHash(name string) string {
	h := sha256.Sum256([]byte("verif-hash-" + name))
	s := "0x" + hex.EncodeToString(h[:])
	n.txh[strings.ToLower(s)] = name
	return s
}

// RegisterTxHash binds a real hub tx hash (hex of sha256 of tx bytes) to a model name.
func (n *Names) RegisterTxHash(real, name string) { n.txh[strings.ToLower(real)] = name }

// HashName returns the model name of a tx hash, or the raw string.
func (n *Names) HashName(real string) string {
	if v, ok := n.txh[strings.ToLower(real)]; ok {
		return v
	}
	return real
}

// Name returns the model name of a real address string (bech32 acc/val, hex with or without 0x), or the raw string.
func (n *Names) Name(real string) string {
	if v, ok := n.rev[strings.ToLower(real)]; ok {
		return v
	}
	return real
}

// AddrString resolves a model name used where the hub expects a bech32 account address.
// Unknown names that look like raw addresses are returned unchanged.
func (n *Names) AddrString(name string) string {
	if strings.HasPrefix(name, "hub1") || name == "" {
		return name
	}
	if name == "tmp" {
		return mhubtypes.TempAddress.String()
	}
	if name == "mod" { // the bridge module account (a blocked address)
		return authtypes.NewModuleAddress(mhubtypes.ModuleName).String()
	}
	return n.Acct(name).Addr.String()
}

// ExtString resolves a model name used where the hub expects a 0x hex address.
// Names starting with "raw:" are passed through verbatim (for malformed-input classes).
func (n *Names) ExtString(name string) string {
	if strings.HasPrefix(name, "raw:") {
		return name[4:]
	}
	if strings.HasPrefix(name, "0x") {
		return name
	}
	if name == "zero" {
		return "0x0000000000000000000000000000000000000000"
	}
	if name == "bad" {
		return "0xnotanaddress"
	}
	// hub accounts used as external receivers (destination chain "hub"): 0x + hex of the account bytes
	if a, ok := n.accts[name]; ok {
		return "0x" + hex.EncodeToString(a.Addr)
	}
	if len(name) > 0 && (name[0] == 'a' || name[0] == 'v' || name[0] == 'o') && !strings.HasPrefix(name, "e") {
		return "0x" + hex.EncodeToString(n.Acct(name).Addr)
	}
	return n.Ext(name).Addr.Hex()
}

func (n *Names) Table() map[string]map[string]string {
	out := map[string]map[string]string{}
	for k, a := range n.accts {
		out[k] = map[string]string{"acc": a.Addr.String(), "val": sdk.ValAddress(a.Addr).String()}
	}
	for k, e := range n.exts {
		out[k] = map[string]string{"eth": e.Addr.Hex()}
	}
	return out
}

func must(err error) {
	if err != nil {
		panic(err)
	}
}

func sprintf(f string, a ...interface{}) string { return fmt.Sprintf(f, a...) }
