package world

import (
	"crypto/ecdsa"
	"encoding/hex"
	"fmt"
	"math/big"
	"strings"

	sdk "github.com/cosmos/cosmos-sdk/types"
	gethcommon "github.com/ethereum/go-ethereum/common"

	mhubtypes "github.com/MinterTeam/mhub2/module/x/mhub2/types"

	"verifharness/evm"
)

// RepoRoot is where the contract bindings are read from.
var RepoRoot = "/repo"

const evmThreshold = 2863311530 // two thirds of 2^32, the bridge's deployment parameter

// EvmState is the external EVM chain attached to a world.
type EvmState struct {
	C   *evm.Chain
	Log []J // emitted bridge events in event-nonce order, in the claim format of the scripts
}

// AttachEvm deploys tokens and the real Hub2 contract for a chain. It must run before New (token addresses go
// into the hub genesis): call PrepareEvm first, then New(cfg), then FinishEvm.
func PrepareEvmTokens(cfg *Cfg, n *Names, chain string) (deployTokens []string) {
	for _, t := range cfg.Tokens {
		if t.Chain == chain {
			deployTokens = append(deployTokens, t.Ext)
		}
	}
	return
}

// NewWithEvm creates a world whose `chain` is backed by the real contract on a simulated EVM.
func NewWithEvm(cfg Cfg, chain string) (*World, error) {
	SetAddrCfg()
	n := NewNames()
	toks := PrepareEvmTokens(&cfg, n, chain)
	// tokens are deployed first (their addresses go into the hub's token list); the contract follows once the hub's
	// first signer set is known. Deployment is deterministic, so a dry run yields the addresses.
	deployer := n.Ext("deployer").Priv
	dry, err := evm.New(RepoRoot, deployer, fundedKeys(n), cfg.GravityId, big.NewInt(evmThreshold),
		[]gethcommon.Address{n.Ext("e1").Addr}, []*big.Int{big.NewInt(4294967295)}, toks)
	if err != nil {
		return nil, err
	}
	if cfg.ExtTokenMap == nil {
		cfg.ExtTokenMap = map[string]string{}
	}
	for t, a := range dry.Tokens {
		cfg.ExtTokenMap[t] = a.Hex()
	}
	w := newWorldWithNames(cfg, n)
	// the hub's current signer set for the chain = the contract's first validator set (nonce 0)
	ctx := w.Ctx()
	cur := w.K.Mhub2.CurrentSignerSet(ctx, mhubtypes.ChainID(chain))
	ss := mhubtypes.NewSignerSetTx(0, 0, cur)
	var addrs []gethcommon.Address
	var powers []*big.Int
	for _, m := range ss.Signers {
		addrs = append(addrs, gethcommon.HexToAddress(m.ExternalAddress))
		powers = append(powers, new(big.Int).SetUint64(m.Power))
	}
	c, err := evm.New(RepoRoot, deployer, fundedKeys(n), cfg.GravityId, big.NewInt(evmThreshold), addrs, powers, toks)
	if err != nil {
		return nil, err
	}
	for t, a := range c.Tokens {
		if !strings.EqualFold(cfg.ExtTokenMap[t], a.Hex()) {
			return nil, fmt.Errorf("token address of %s is not deterministic", t)
		}
		n.rev[strings.ToLower(a.Hex())] = "tok-" + t
	}
	// the constructor emitted ValsetUpdatedEvent(nonce 0) with event nonce 1: the first event validators report
	first := J{"t": "SSExec", "n": unum(c.LastEventNonce()), "ssn": 0, "eh": unum(c.Height()), "m": projMembers(w, ss.Signers), "txh": "x0"}
	w.Evm = map[string]*EvmState{chain: {C: c, Log: []J{first}}}
	return w, nil
}

func fundedKeys(n *Names) []*ecdsa.PrivateKey {
	var out []*ecdsa.PrivateKey
	for _, name := range []string{"e5", "e6", "e7", "e8", "e9"} {
		out = append(out, n.Ext(name).Priv)
	}
	return out
}

func bytes32Of(s string) [32]byte {
	var b [32]byte
	copy(b[:], []byte(s))
	return b
}

// destBytes32 encodes a destination address the way the contract expects it (left padded 20 byte address)
func destBytes32(addr string) [32]byte {
	var b [32]byte
	a := gethcommon.HexToAddress(addr)
	copy(b[12:], a.Bytes())
	return b
}

func (w *World) evmOf(chain string) *EvmState {
	if w.Evm == nil {
		return nil
	}
	return w.Evm[chain]
}

// ExecEvm runs one action of the external EVM chain.
func (w *World) ExecEvm(a Act) (Outcome, J) {
	chain := a.S("chain")
	es := w.evmOf(chain)
	if es == nil {
		return Outcome{Out: "err", Log: "no evm for chain " + chain}, nil
	}
	c := es.C
	switch a.S("k") {
	case "EvmMine":
		c.Mine(int(a.I("n")))
		return Outcome{Out: "ok"}, nil
	case "EvmDeposit":
		user := w.N.Ext(a.S("user"))
		ev, e := c.Deposit(user.Priv, a.S("tok"), a.S("rch"), destBytes32(w.N.ExtString(a.S("rcv"))), a.Int("amt").BigInt(), a.Int("fee").BigInt())
		if e != "" {
			return Outcome{Out: "revert", Log: shortLog(e)}, nil
		}
		txName := sprintf("x%d", w.stepNo)
		w.N.txh[strings.ToLower(ev.TxHash.Hex())] = txName
		rec := J{"t": "Deposit", "n": unum(ev.EventNonce), "tok": a.S("tok"), "amt": num(sdk.NewIntFromBigInt(ev.Amount)), "fee": num(sdk.NewIntFromBigInt(ev.Fee)),
			"snd": w.N.Name(ev.Sender.Hex()), "rch": ev.DestChain, "rcv": w.N.Name(gethcommon.BytesToAddress(ev.Dest[12:]).Hex()), "eh": unum(ev.Height), "txh": txName,
			"real_txh": ev.TxHash.Hex()}
		es.Log = append(es.Log, rec)
		return Outcome{Out: "ok"}, rec
	case "EvmUpdateValset", "EvmSubmitBatch":
		ctx := w.Ctx()
		k := w.K.Mhub2
		cctx := sdk.WrapSDKContext(ctx)
		include := map[string]bool{}
		all := !a.Has("sigs")
		for _, v := range a.L("sigs") {
			ext := k.GetValidatorExternalAddress(ctx, mhubtypes.ChainID(chain), sdk.ValAddress(w.N.Acct(asStr(v)).Addr))
			include[strings.ToLower(ext.Hex())] = true
		}
		type conf struct {
			addr string
			sig  []byte
		}
		var confs []conf
		if a.S("k") == "EvmUpdateValset" {
			nonce := a.U("n")
			res, err := k.SignerSetTx(cctx, &mhubtypes.SignerSetTxRequest{SignerSetNonce: nonce, ChainId: chain})
			if err != nil || res.SignerSet == nil {
				return Outcome{Out: "err", Log: "no such signer set on the hub"}, nil
			}
			cr, err := k.SignerSetTxConfirmations(cctx, &mhubtypes.SignerSetTxConfirmationsRequest{SignerSetNonce: nonce, ChainId: chain})
			if err != nil {
				return Outcome{Out: "err", Log: err.Error()}, nil
			}
			for _, s := range cr.Signatures {
				confs = append(confs, conf{s.ExternalSigner, s.Signature})
			}
			sigs := make([]evm.Sig, len(c.SetAddrs))
			for i, addr := range c.SetAddrs {
				for _, cf := range confs {
					if strings.EqualFold(cf.addr, addr.Hex()) && (all || include[strings.ToLower(addr.Hex())]) {
						sigs[i] = evm.SplitSig(cf.sig)
					}
				}
			}
			var addrs []gethcommon.Address
			var powers []*big.Int
			for _, m := range res.SignerSet.Signers {
				addrs = append(addrs, gethcommon.HexToAddress(m.ExternalAddress))
				powers = append(powers, new(big.Int).SetUint64(m.Power))
			}
			h, txh, e := c.UpdateValset(w.N.Ext("e9").Priv, addrs, powers, nonce, sigs)
			if e != "" {
				return Outcome{Out: "revert", Log: shortLog(e)}, nil
			}
			txName := sprintf("x%d", w.stepNo)
			w.N.txh[strings.ToLower(txh.Hex())] = txName
			rec := J{"t": "SSExec", "n": unum(c.LastEventNonce()), "ssn": unum(nonce), "eh": unum(h), "m": projMembers(w, res.SignerSet.Signers), "txh": txName, "real_txh": txh.Hex()}
			es.Log = append(es.Log, rec)
			return Outcome{Out: "ok"}, rec
		}
		// batch
		tok := a.S("tok")
		nonce := a.U("n")
		res, err := func() (r *mhubtypes.BatchTxResponse, err error) {
			defer func() {
				if p := recover(); p != nil {
					err = fmt.Errorf("%v", p)
				}
			}()
			return k.BatchTx(cctx, &mhubtypes.BatchTxRequest{ExternalTokenId: w.ExtTokenId(chain, tok), BatchNonce: nonce, ChainId: chain})
		}()
		var batch *mhubtypes.BatchTx
		if err == nil && res != nil {
			batch = res.Batch
		}
		if batch == nil {
			// a batch the hub has withdrawn stays known to relayers: use the copy remembered when it was published
			batch = w.publishedBatch(chain, tok, nonce)
			if batch == nil {
				return Outcome{Out: "err", Log: "no such batch"}, nil
			}
		}
		cr, err := k.BatchTxConfirmations(cctx, &mhubtypes.BatchTxConfirmationsRequest{ExternalTokenId: batch.ExternalTokenId, BatchNonce: nonce, ChainId: chain})
		if err == nil {
			for _, s := range cr.Signatures {
				confs = append(confs, conf{s.ExternalSigner, s.Signature})
			}
		}
		for _, s := range w.publishedSigs[pubKey(chain, tok, nonce)] {
			confs = append(confs, conf{s.addr, s.sig})
		}
		sigs := make([]evm.Sig, len(c.SetAddrs))
		for i, addr := range c.SetAddrs {
			for _, cf := range confs {
				if strings.EqualFold(cf.addr, addr.Hex()) && (all || include[strings.ToLower(addr.Hex())]) {
					sigs[i] = evm.SplitSig(cf.sig)
				}
			}
		}
		var amounts, fees []*big.Int
		var dests []gethcommon.Address
		paid := big.NewInt(0)
		for _, t := range batch.Transactions {
			amounts = append(amounts, t.Token.Amount.BigInt())
			fees = append(fees, t.Fee.Amount.BigInt())
			dests = append(dests, gethcommon.HexToAddress(t.ExternalRecipient))
			paid.Add(paid, t.Token.Amount.BigInt())
		}
		h, txh, e := c.SubmitBatch(w.N.Ext("e9").Priv, sigs, amounts, dests, fees, nonce, gethcommon.HexToAddress(batch.ExternalTokenId), batch.Timeout)
		if e != "" {
			return Outcome{Out: "revert", Log: shortLog(e)}, nil
		}
		txName := sprintf("x%d", w.stepNo)
		w.N.txh[strings.ToLower(txh.Hex())] = txName
		rec := J{"t": "Exec", "n": unum(c.LastEventNonce()), "tok": tok, "bn": unum(nonce), "eh": unum(h), "txh": txName, "fp": 1, "fpr": "e9",
			"paid": num(sdk.NewIntFromBigInt(paid)), "real_txh": txh.Hex()}
		es.Log = append(es.Log, rec)
		return Outcome{Out: "ok"}, rec
	}
	return Outcome{Out: "err", Log: "unknown evm action"}, nil
}

type pubSig struct {
	addr string
	sig  []byte
}

func pubKey(chain, tok string, nonce uint64) string { return sprintf("%s|%s|%d", chain, tok, nonce) }

// rememberPublished keeps every batch (and its confirmations) the hub ever offered, as a relayer would.
func (w *World) rememberPublished() {
	if w.Evm == nil {
		return
	}
	ctx := w.Ctx()
	for chain := range w.Evm {
		cid := mhubtypes.ChainID(chain)
		w.K.Mhub2.IterateOutgoingTxsByType(ctx, cid, mhubtypes.BatchTxPrefixByte, func(_ []byte, otx mhubtypes.OutgoingTx) bool {
			b := otx.(*mhubtypes.BatchTx)
			key := pubKey(chain, w.ExtTokenName(chain, b.ExternalTokenId), b.BatchNonce)
			if w.published == nil {
				w.published = map[string]*mhubtypes.BatchTx{}
				w.publishedSigs = map[string][]pubSig{}
			}
			cp := *b
			w.published[key] = &cp
			var sigs []pubSig
			for val, sig := range w.K.Mhub2.GetExternalSignatures(ctx, cid, b.GetStoreIndex(cid)) {
				va, _ := sdk.ValAddressFromBech32(val)
				sigs = append(sigs, pubSig{w.K.Mhub2.GetValidatorExternalAddress(ctx, cid, va).Hex(), sig})
			}
			w.publishedSigs[key] = sigs
			return false
		})
	}
}

func (w *World) publishedBatch(chain, tok string, nonce uint64) *mhubtypes.BatchTx {
	if w.published == nil {
		return nil
	}
	return w.published[pubKey(chain, tok, nonce)]
}

// ProjectEvm is the abstract state of the external contracts.
func (w *World) ProjectEvm() J {
	out := J{}
	for chain, es := range w.Evm {
		c := es.C
		cust := J{}
		lbn := J{}
		for t := range c.Tokens {
			cust[t] = num(sdk.NewIntFromBigInt(c.TokenBalance(t, c.HubAddr)))
			lbn[t] = unum(c.LastBatchNonce(t))
		}
		bal := J{}
		for _, u := range []string{"e5", "e6", "e8"} {
			b := J{}
			for t := range c.Tokens {
				b[t] = num(sdk.NewIntFromBigInt(c.TokenBalance(t, w.N.Ext(u).Addr)))
			}
			bal[u] = b
		}
		members := []interface{}{}
		for i, a := range c.SetAddrs {
			members = append(members, []interface{}{w.N.Name(a.Hex()), limbs(c.SetPowers[i].Uint64())})
		}
		cp := c.Checkpoint()
		// the digest the hub's code computes for the same validator set
		var signers []*mhubtypes.ExternalSigner
		for i, a := range c.SetAddrs {
			signers = append(signers, &mhubtypes.ExternalSigner{ExternalAddress: a.Hex(), Power: c.SetPowers[i].Uint64()})
		}
		cph := mhubtypes.SignerSetTx{Nonce: c.SetNonce, Signers: signers}.GetCheckpoint([]byte(w.Cfg.GravityId))
		out[chain] = J{"cph": hex.EncodeToString(cph[:4]), "blk": unum(c.Height()), "vsn": unum(c.LastValsetNonce()), "evn": unum(c.LastEventNonce()), "cust": cust, "lbn": lbn, "bal": bal,
			"set": J{"n": unum(c.SetNonce), "m": members}, "cp": hex.EncodeToString(cp[:4]), "thr": limbs(evmThreshold), "log": len(es.Log)}
	}
	return out
}
