package world

import (
	sdk "github.com/cosmos/cosmos-sdk/types"

	mhubtypes "github.com/MinterTeam/mhub2/module/x/mhub2/types"
)

// helpers for drivers that live outside this package (the Minter loop driver)

func Num(i sdk.Int) interface{}                     { return num(i) }
func Unum(u uint64) interface{}                     { return unum(u) }
func Limbs(u uint64) []int64                        { return limbs(u) }
func JsonAct(j J) Act                               { return jsonAct(j) }
func ShortLog(s string) string                      { return shortLog(s) }
func (w *World) StepNo() int                        { return w.stepNo }
func (w *World) BumpStep() int                      { w.stepNo++; return w.stepNo }
func (w *World) SignerOf(digest, sig []byte) string { return w.signerOf(digest, sig) }

func DecScaled(d sdk.Dec, scale int64) interface{} { return decScaled(d, scale) }
func HolderAddr(n *Names, name string) string      { return holderAddr(n, name) }

func (w *World) HolderName(addr string) string { return w.holderName(addr) }

// Summary is a cheap projection for bulk scenarios (hundreds of pool entries): per external chain the size of the
// pool, the highest fee waiting per token and, per batch, [nonce, token, number of transfers, lowest fee, sequence].
func (w *World) Summary() J {
	ctx := w.Ctx()
	out := J{}
	for _, chain := range w.Cfg.Chains {
		if chain == "hub" {
			continue
		}
		cid := mhubtypes.ChainID(chain)
		poolmax := J{}
		pool := 0
		var all []*mhubtypes.SendToExternal
		w.K.Mhub2.IterateUnbatchedSendToExternals(ctx, cid, func(s *mhubtypes.SendToExternal) bool { all = append(all, s); return false })
		for _, ste := range all {
			pool++
			tok := w.ExtTokenName(chain, ste.Token.ExternalTokenId)
			f := ste.Fee.Amount.Int64()
			if cur, ok := poolmax[tok]; !ok || f > cur.(int64) {
				poolmax[tok] = f
			}
		}
		bats := []interface{}{}
		w.K.Mhub2.IterateOutgoingTxsByType(ctx, cid, mhubtypes.BatchTxPrefixByte, func(_ []byte, otx mhubtypes.OutgoingTx) bool {
			b := otx.(*mhubtypes.BatchTx)
			minFee := int64(-1)
			for _, t := range b.Transactions {
				if f := t.Fee.Amount.Int64(); minFee < 0 || f < minFee {
					minFee = f
				}
			}
			bats = append(bats, []interface{}{b.BatchNonce, w.ExtTokenName(chain, b.ExternalTokenId), len(b.Transactions), minFee, b.Sequence})
			return false
		})
		out[chain] = J{"pool": pool, "poolmax": poolmax, "bats": bats}
	}
	return out
}
