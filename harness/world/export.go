package world

import sdk "github.com/cosmos/cosmos-sdk/types"

// helpers for drivers that live outside this package (the Minter loop driver)

func Num(i sdk.Int) interface{}                     { return num(i) }
func Unum(u uint64) interface{}                     { return unum(u) }
func Limbs(u uint64) []int64                        { return limbs(u) }
func JsonAct(j J) Act                               { return jsonAct(j) }
func ShortLog(s string) string                      { return shortLog(s) }
func (w *World) StepNo() int                        { return w.stepNo }
func (w *World) BumpStep() int                      { w.stepNo++; return w.stepNo }
func (w *World) SignerOf(digest, sig []byte) string { return w.signerOf(digest, sig) }

func DecScaled(d sdk.Dec, scale int64) interface{} { return decScaled(d, scale) }
func HolderAddr(n *Names, name string) string      { return holderAddr(n, name) }

func (w *World) HolderName(addr string) string { return w.holderName(addr) }
