package world

import (
	"bytes"
	"encoding/json"
	"sort"
	"strings"

	sdk "github.com/cosmos/cosmos-sdk/types"
)

// Aux returns the static orderings the specification needs but cannot compute from model names:
// byte order of external token ids and of external address strings, prefix relations between token ids,
// and the staking module's tie-break order of validators.
func (w *World) Aux() J {
	type tk struct {
		i   int
		ext string
	}
	var toks []tk
	for i, t := range w.Cfg.Tokens {
		toks = append(toks, tk{i, w.ExtTokenId(t.Chain, t.Ext)})
	}
	sorted := make([]tk, len(toks))
	copy(sorted, toks)
	sort.SliceStable(sorted, func(a, b int) bool { return sorted[a].ext < sorted[b].ext })
	ord := map[int]int{}
	rank := 0
	for i, t := range sorted {
		if i == 0 || sorted[i-1].ext != t.ext {
			rank++
		}
		ord[t.i] = rank
	}
	tokens := []interface{}{}
	for i, t := range w.Cfg.Tokens {
		pfx := []interface{}{}
		for j, u := range w.Cfg.Tokens {
			if i != j && u.Chain == t.Chain && toks[j].ext != toks[i].ext && strings.HasPrefix(toks[j].ext, toks[i].ext) {
				pfx = append(pfx, u.Ext)
			}
		}
		tokens = append(tokens, J{"id": unum(t.Id), "denom": t.Denom, "chain": t.Chain, "ext": t.Ext, "dec": unum(t.Dec),
			"rnum": t.RateNum, "rden": t.RateDen, "ord": ord[i], "pfx": pfx})
	}
	// external address strings as the hub stores them (checksummed hex), ranked in byte order
	extNames := []string{}
	for i := 1; i <= 12; i++ {
		extNames = append(extNames, sprintf("e%d", i))
	}
	sort.SliceStable(extNames, func(a, b int) bool { return w.N.Ext(extNames[a]).Addr.Hex() < w.N.Ext(extNames[b]).Addr.Hex() })
	extord := J{}
	for i, e := range extNames {
		extord[e] = i + 1
	}
	vals := []string{}
	for _, v := range w.Cfg.Vals {
		vals = append(vals, v.Name)
	}
	sort.SliceStable(vals, func(a, b int) bool {
		return bytes.Compare(sdk.ValAddress(w.N.Acct(vals[a]).Addr), sdk.ValAddress(w.N.Acct(vals[b]).Addr)) < 0
	})
	valrank := J{}
	for i, v := range vals {
		valrank[v] = i + 1
	}
	return J{"tokens": tokens, "extord": extord, "valrank": valrank, "accts": w.TrackedAccounts()}
}

// Canon returns the action with its event (if any) in the canonical projected form, so that the
// specification sees the same record the hub will store.
func (w *World) Canon(a Act) Act {
	if a.S("k") != "Claim" {
		return a
	}
	evDesc := a.M("ev")
	if evDesc.Has("ref") {
		es := w.evmOf(a.S("chain"))
		k := int(evDesc.I("ref"))
		if es == nil || k < 1 || k > len(es.Log) {
			return a
		}
		evDesc = jsonAct(es.Log[k-1])
	}
	ev, err := w.BuildEvent(a.S("chain"), evDesc)
	if err != nil {
		return a
	}
	out := Act{}
	for k, v := range a {
		out[k] = v
	}
	out["ev"] = w.ProjectEvent(a.S("chain"), ev)
	return out
}

// jsonAct normalises a recorded event (Go values) into the generic JSON form scripts use.
func jsonAct(j J) Act {
	bz, _ := json.Marshal(j)
	var a Act
	_ = json.Unmarshal(bz, &a)
	return a
}
