// Package world drives the real mhub2 application (app.NewMhub2App: baseapp, ante handler, bank, staking,
// mhub2 and oracle keepers over a cache-wrapped multistore) one ABCI call at a time and projects its state
// onto the abstract state of the TLA+ specification.
package world

import (
	"crypto/sha256"
	"encoding/hex"
	"encoding/json"
	"fmt"
	"os"
	"sort"
	"strings"
	"time"

	"github.com/cosmos/cosmos-sdk/client"
	clienttx "github.com/cosmos/cosmos-sdk/client/tx"
	codectypes "github.com/cosmos/cosmos-sdk/codec/types"
	cryptocodec "github.com/cosmos/cosmos-sdk/crypto/codec"
	"github.com/cosmos/cosmos-sdk/simapp"
	sdk "github.com/cosmos/cosmos-sdk/types"
	"github.com/cosmos/cosmos-sdk/types/tx/signing"
	authsigning "github.com/cosmos/cosmos-sdk/x/auth/signing"
	authtypes "github.com/cosmos/cosmos-sdk/x/auth/types"
	banktypes "github.com/cosmos/cosmos-sdk/x/bank/types"
	crisistypes "github.com/cosmos/cosmos-sdk/x/crisis/types"
	govtypes "github.com/cosmos/cosmos-sdk/x/gov/types"
	minttypes "github.com/cosmos/cosmos-sdk/x/mint/types"
	stakingtypes "github.com/cosmos/cosmos-sdk/x/staking/types"
	abci "github.com/tendermint/tendermint/abci/types"
	"github.com/tendermint/tendermint/libs/log"
	tmproto "github.com/tendermint/tendermint/proto/tendermint/types"
	dbm "github.com/tendermint/tm-db"

	"github.com/MinterTeam/mhub2/module/app"
	mhubtypes "github.com/MinterTeam/mhub2/module/x/mhub2/types"
	oracletypes "github.com/MinterTeam/mhub2/module/x/oracle/types"
)

const ChainID = "verif-hub"
const BondDenom = "stake"

var GenesisTime = time.Unix(1700000000, 0).UTC()

// TokenCfg describes one TokenInfo of the hub's token list.
type TokenCfg struct {
	Id      uint64 `json:"id"`
	Denom   string `json:"denom"`
	Chain   string `json:"chain"`
	Ext     string `json:"ext"`  // model name of the external token (t1 ..), or a literal Minter coin id
	Dec     uint64 `json:"dec"`  // external decimals
	RateNum int64  `json:"rnum"` // commission = RateNum / RateDen
	RateDen int64  `json:"rden"`
}

type ValCfg struct {
	Name  string `json:"name"`
	Power int64  `json:"power"`
}

type KeyCfg struct {
	Val   string `json:"val"`
	Orch  string `json:"orch"`
	Ext   string `json:"ext"`
	Chain string `json:"chain"`
}

// Cfg is the genesis configuration of a World.
type Cfg struct {
	Vals        []ValCfg                     `json:"vals"`
	MaxVals     uint32                       `json:"maxvals"`
	Users       map[string]map[string]string `json:"users"` // account -> denom -> amount
	Tokens      []TokenCfg                   `json:"tokens"`
	Chains      []string                     `json:"chains"`
	OutTimeout  uint64                       `json:"out_timeout_ms"`
	TargetMs    uint64                       `json:"target_ms"`
	AvgBlockMs  uint64                       `json:"avg_block_ms"`
	AvgEthMs    uint64                       `json:"avg_eth_ms"`
	AvgBscMs    uint64                       `json:"avg_bsc_ms"`
	SSWindow    uint64                       `json:"ss_window"`
	GravityId   string                       `json:"gravity_id"`
	Keys        []KeyCfg                     `json:"keys"`
	Prices      map[string]string            `json:"prices"`  // name -> Dec string
	Holders     [][2]string                  `json:"holders"` // [ext name or raw address, value]
	Denoms      []string                     `json:"denoms"`  // tracked (bridged) denoms
	ExtTokenMap map[string]string            `json:"ext_token_map"`
	// PowerScale multiplies every consensus power of the configuration and of Stake steps (0 = 1): stakes beyond 2^32
	// units with the same proportions; the projection divides by it again (TLC integers are 32 bit)
	PowerScale int64 `json:"power_scale,omitempty"`
}

// Scale is the factor applied to consensus powers.
func (c Cfg) Scale() int64 {
	if c.PowerScale <= 0 {
		return 1
	}
	return c.PowerScale
}

func DefaultCfg() Cfg {
	return Cfg{
		Vals:    []ValCfg{{"v1", 1}, {"v2", 1}, {"v3", 1}},
		MaxVals: 10,
		Users: map[string]map[string]string{
			"a1": {"hub": "1000", "usd": "1000"},
			"a2": {"hub": "1000", "usd": "1000"},
		},
		Tokens: []TokenCfg{
			{1, "hub", "ethereum", "t1", 18, 1, 100},
			{2, "hub", "minter", "1", 18, 1, 100},
			{3, "hub", "bsc", "t3", 18, 1, 100},
			{4, "usd", "ethereum", "t4", 17, 1, 2},
			{5, "usd", "minter", "12", 19, 0, 1},
			{6, "usd", "bsc", "t6", 18, 0, 1},
		},
		Chains:     []string{"ethereum", "minter", "bsc", "hub"},
		OutTimeout: 100000, TargetMs: 60000, AvgBlockMs: 20000, AvgEthMs: 20000, AvgBscMs: 20000,
		SSWindow:  10000,
		GravityId: "verifgravityid",
		Denoms:    []string{"hub", "usd"},
	}
}

// World is one application instance plus the name tables and block bookkeeping.
type World struct {
	Cfg   Cfg
	N     *Names
	App   *app.Mhub2
	K     app.VerifKeepers
	Enc   client.TxConfig
	InBlk bool
	H     int64
	T     time.Time
	Dead  string // non-empty after an un-recovered panic or a hang in block processing
	DB    dbm.DB

	genesisPending bool // InitChain done, first block not yet committed (state lives in the deliver state)

	Evm           map[string]*EvmState // external chains backed by the real contract (optional)
	published     map[string]*mhubtypes.BatchTx
	publishedSigs map[string][]pubSig

	lastEvents [][]byte // serialized ABCI responses of the current block (for determinism checks)
	stepNo     int
}

var addrCfgDone bool

func SetAddrCfg() {
	if !addrCfgDone {
		app.SetAddressConfig()
		addrCfgDone = true
	}
}

// ExtTokenId returns the hub-side external token id string for a token model name on a chain.
func (w *World) ExtTokenId(chain, name string) string {
	if strings.HasPrefix(name, "raw:") {
		return name[4:]
	}
	if v, ok := w.Cfg.ExtTokenMap[name]; ok {
		return v
	}
	if chain == "minter" || chain == "hub" {
		return name
	}
	if strings.HasPrefix(name, "0x") {
		return name
	}
	return w.N.Ext("tok-" + name).Addr.Hex()
}

func (w *World) ExtTokenName(chain, id string) string {
	if chain == "minter" || chain == "hub" {
		return id
	}
	for k, v := range w.Cfg.ExtTokenMap {
		if strings.EqualFold(v, id) {
			return k
		}
	}
	nm := w.N.Name(id)
	return strings.TrimPrefix(nm, "tok-")
}

func decFrac(num, den int64) sdk.Dec {
	if den == 0 {
		den = 1
	}
	return sdk.NewDec(num).QuoInt64(den)
}

// BuildGenesis produces the app state for InitChain.
func BuildGenesis(cfg Cfg, n *Names) (app.GenesisState, []abci.ValidatorUpdate) {
	enc := app.MakeEncodingConfig()
	cdc := enc.Marshaler
	gs := app.NewDefaultGenesisState()

	var accounts []authtypes.GenesisAccount
	var balances []banktypes.Balance
	addBal := func(addr sdk.AccAddress, coins sdk.Coins) {
		balances = append(balances, banktypes.Balance{Address: addr.String(), Coins: coins.Sort()})
	}
	seen := map[string]bool{}
	addAcct := func(name string, coins sdk.Coins) {
		if seen[name] {
			return
		}
		seen[name] = true
		a := n.Acct(name)
		accounts = append(accounts, authtypes.NewBaseAccount(a.Addr, a.Priv.PubKey(), 0, 0))
		if !coins.IsZero() {
			addBal(a.Addr, coins)
		}
	}

	// staking
	var vals []stakingtypes.Validator
	var dels []stakingtypes.Delegation
	bonded := sdk.ZeroInt()
	for _, vc := range cfg.Vals {
		a := n.Acct(vc.Name)
		cons := n.Cons(vc.Name)
		pkAny, err := codectypes.NewAnyWithValue(cons.PubKey())
		must(err)
		tokens := sdk.TokensFromConsensusPower(vc.Power*cfg.Scale(), sdk.DefaultPowerReduction)
		v := stakingtypes.Validator{
			OperatorAddress:   sdk.ValAddress(a.Addr).String(),
			ConsensusPubkey:   pkAny,
			Jailed:            false,
			Status:            stakingtypes.Bonded,
			Tokens:            tokens,
			DelegatorShares:   tokens.ToDec(),
			Description:       stakingtypes.Description{Moniker: vc.Name},
			UnbondingHeight:   0,
			UnbondingTime:     time.Unix(0, 0).UTC(),
			Commission:        stakingtypes.NewCommission(sdk.ZeroDec(), sdk.ZeroDec(), sdk.ZeroDec()),
			MinSelfDelegation: sdk.OneInt(),
		}
		vals = append(vals, v)
		dels = append(dels, stakingtypes.NewDelegation(a.Addr, sdk.ValAddress(a.Addr), tokens.ToDec()))
		bonded = bonded.Add(tokens)
		addAcct(vc.Name, sdk.NewCoins(sdk.NewCoin(BondDenom, sdk.TokensFromConsensusPower(1000*cfg.Scale(), sdk.DefaultPowerReduction))))
	}
	addBal(authtypes.NewModuleAddress(stakingtypes.BondedPoolName), sdk.NewCoins(sdk.NewCoin(BondDenom, bonded)))
	// a delegator account with plenty of stake used by Stake steps
	addAcct("del", sdk.NewCoins(sdk.NewCoin(BondDenom, sdk.TokensFromConsensusPower(1000000*cfg.Scale(), sdk.DefaultPowerReduction))))

	userNames := make([]string, 0, len(cfg.Users))
	for u := range cfg.Users {
		userNames = append(userNames, u)
	}
	sort.Strings(userNames)
	for _, u := range userNames {
		coins := sdk.Coins{}
		for d, amt := range cfg.Users[u] {
			i, ok := sdk.NewIntFromString(amt)
			if !ok {
				panic("bad amount " + amt)
			}
			if i.IsPositive() {
				coins = coins.Add(sdk.NewCoin(d, i))
			}
		}
		if seen[u] {
			// validator account that is also a user: merge balances
			for i := range balances {
				if balances[i].Address == n.Acct(u).Addr.String() {
					balances[i].Coins = balances[i].Coins.Add(coins...)
				}
			}
			continue
		}
		addAcct(u, coins)
	}
	for _, k := range cfg.Keys {
		addAcct(k.Orch, sdk.Coins{})
	}
	for _, o := range []string{"o1", "o2", "o3", "o4", "a3"} {
		addAcct(o, sdk.Coins{})
	}

	sp := stakingtypes.DefaultParams()
	sp.BondDenom = BondDenom
	sp.MaxValidators = cfg.MaxVals
	sp.UnbondingTime = 1000 * time.Hour
	gs[stakingtypes.ModuleName] = cdc.MustMarshalJSON(&stakingtypes.GenesisState{Params: sp, Validators: vals, Delegations: dels})

	gs[authtypes.ModuleName] = cdc.MustMarshalJSON(authtypes.NewGenesisState(authtypes.DefaultParams(), accounts))
	sort.Slice(balances, func(i, j int) bool { return balances[i].Address < balances[j].Address })
	gs[banktypes.ModuleName] = cdc.MustMarshalJSON(banktypes.NewGenesisState(banktypes.DefaultParams(), balances, sdk.Coins{}, nil))

	mg := minttypes.DefaultGenesisState()
	mg.Minter.Inflation = sdk.ZeroDec()
	mg.Minter.AnnualProvisions = sdk.ZeroDec()
	mg.Params.MintDenom = BondDenom
	mg.Params.InflationMax = sdk.ZeroDec()
	mg.Params.InflationMin = sdk.ZeroDec()
	mg.Params.InflationRateChange = sdk.ZeroDec()
	gs[minttypes.ModuleName] = cdc.MustMarshalJSON(mg)

	cg := crisistypes.DefaultGenesisState()
	cg.ConstantFee = sdk.NewCoin(BondDenom, sdk.NewInt(1000))
	gs[crisistypes.ModuleName] = cdc.MustMarshalJSON(cg)

	gg := govtypes.DefaultGenesisState()
	gg.DepositParams.MinDeposit = sdk.NewCoins(sdk.NewCoin(BondDenom, sdk.NewInt(1)))
	gs[govtypes.ModuleName] = cdc.MustMarshalJSON(gg)

	// mhub2
	params := mhubtypes.DefaultParams()
	params.GravityId = cfg.GravityId
	params.TargetEthTxTimeout = cfg.TargetMs
	params.AverageBlockTime = cfg.AvgBlockMs
	params.AverageEthereumBlockTime = cfg.AvgEthMs
	params.AverageBscBlockTime = cfg.AvgBscMs
	params.OutgoingTxTimeout = cfg.OutTimeout
	params.Chains = cfg.Chains
	params.SignedSignerSetTxsWindow = cfg.SSWindow
	tw := &World{Cfg: cfg, N: n}
	var infos []*mhubtypes.TokenInfo
	for _, t := range cfg.Tokens {
		infos = append(infos, &mhubtypes.TokenInfo{Id: t.Id, Denom: t.Denom, ChainId: t.Chain,
			ExternalTokenId: tw.ExtTokenId(t.Chain, t.Ext), ExternalDecimals: t.Dec, Commission: decFrac(t.RateNum, t.RateDen)})
	}
	mgs := &mhubtypes.GenesisState{Params: params, TokenInfos: &mhubtypes.TokenInfos{TokenInfos: infos}}
	byChain := map[string][]*mhubtypes.MsgDelegateKeys{}
	for _, k := range cfg.Keys {
		byChain[k.Chain] = append(byChain[k.Chain], &mhubtypes.MsgDelegateKeys{
			ValidatorAddress:    sdk.ValAddress(n.Acct(k.Val).Addr).String(),
			OrchestratorAddress: n.Acct(k.Orch).Addr.String(),
			ExternalAddress:     n.Ext(k.Ext).Addr.Hex(),
			EthSignature:        []byte{0},
			ChainId:             k.Chain,
		})
	}
	for _, c := range cfg.Chains {
		if ks, ok := byChain[c]; ok {
			mgs.ExternalStates = append(mgs.ExternalStates, &mhubtypes.ExternalState{ChainId: c, DelegateKeys: ks,
				LatestBlockHeight: mhubtypes.LatestBlockHeight{}})
		}
	}
	gs[mhubtypes.ModuleName] = cdc.MustMarshalJSON(mgs)

	og := oracletypes.DefaultGenesisState()
	if len(cfg.Prices) > 0 {
		names := make([]string, 0)
		for k := range cfg.Prices {
			names = append(names, k)
		}
		sort.Strings(names)
		pr := &oracletypes.Prices{}
		for _, k := range names {
			pr.List = append(pr.List, &oracletypes.Price{Name: k, Value: sdk.MustNewDecFromStr(cfg.Prices[k])})
		}
		og.Prices = pr
	}
	if len(cfg.Holders) > 0 {
		hs := &oracletypes.Holders{}
		for _, h := range cfg.Holders {
			v, _ := sdk.NewIntFromString(h[1])
			hs.List = append(hs.List, &oracletypes.Holder{Address: holderAddr(n, h[0]), Value: v})
		}
		og.Holders = hs
	}
	gs[oracletypes.ModuleName] = cdc.MustMarshalJSON(og)
	return gs, nil
}

func holderAddr(n *Names, name string) string {
	if strings.HasPrefix(name, "raw:") {
		return name[4:]
	}
	// holder lists carry addresses without the 0x prefix, lower case (see GetCommissionForHolder)
	s := n.ExtString(name)
	return strings.ToLower(strings.TrimPrefix(s, "0x"))
}

// New creates an application on a fresh MemDB and runs InitChain with the configured genesis.
func New(cfg Cfg) *World {
	SetAddrCfg()
	return newWorldWithNames(cfg, NewNames())
}

func newWorldWithNames(cfg Cfg, n *Names) *World {
	gs, _ := BuildGenesis(cfg, n)
	w := newApp(cfg, n)
	stateBytes, err := json.Marshal(gs)
	must(err)
	w.App.InitChain(abci.RequestInitChain{
		ChainId:         ChainID,
		Time:            GenesisTime,
		ConsensusParams: consensusParams(),
		AppStateBytes:   stateBytes,
	})
	w.genesisPending = true
	w.H = 0
	w.T = GenesisTime
	return w
}

// consensus parameters without a block gas limit (block processing itself is what is under test)
func consensusParams() *abci.ConsensusParams {
	cp := *simapp.DefaultConsensusParams
	blk := *cp.Block
	blk.MaxGas = -1
	cp.Block = &blk
	return &cp
}

func newApp(cfg Cfg, n *Names) *World {
	db := dbm.NewMemDB()
	enc := app.MakeEncodingConfig()
	var logger log.Logger = log.NewNopLogger()
	if os.Getenv("VERIF_APPLOG") != "" {
		logger = log.NewTMLogger(os.Stderr)
	}
	a := app.NewMhub2App(logger, db, nil, true, map[int64]bool{}, "", 0, enc, simapp.EmptyAppOptions{})
	return &World{Cfg: cfg, N: n, App: a, K: a.VerifKeepers(), Enc: enc.TxConfig, DB: db, T: GenesisTime}
}

// NewFromExport initialises a fresh application from an exported genesis (production path of a chain restart).
func NewFromExport(cfg Cfg, n *Names, appState json.RawMessage, vals []abci.ValidatorUpdate, initialHeight int64, t time.Time) *World {
	SetAddrCfg()
	w := newApp(cfg, n)
	w.App.InitChain(abci.RequestInitChain{
		ChainId:         ChainID,
		Time:            t,
		ConsensusParams: consensusParams(),
		AppStateBytes:   appState,
		Validators:      vals,
		InitialHeight:   initialHeight,
	})
	w.genesisPending = true
	w.H = initialHeight - 1
	w.T = t
	return w
}

func (w *World) header() tmproto.Header {
	return tmproto.Header{ChainID: ChainID, Height: w.H, Time: w.T,
		ProposerAddress: w.N.Cons(w.Cfg.Vals[0].Name).PubKey().Address()}
}

// Ctx returns a context over the uncommitted block state inside a block, else over the last committed state.
func (w *World) Ctx() sdk.Context {
	if w.InBlk || w.genesisPending {
		return w.App.BaseApp.NewContext(false, w.header())
	}
	return w.App.BaseApp.NewContext(true, w.header())
}

// Outcome of one ABCI operation.
type Outcome struct {
	Out  string `json:"out"` // ok | err | panic | timeout | dead
	Code uint32 `json:"code,omitempty"`
	Log  string `json:"log,omitempty"`
	Id   uint64 `json:"id,omitempty"`
	Hash string `json:"hash,omitempty"`
	Ev   J      `json:"ev,omitempty"`  // the bridge event an external-chain action emitted
	Aux  J      `json:"aux,omitempty"` // token list (with store orderings) after a governance change of the token infos
}

const blockOpTimeout = 20 * time.Second

// guarded runs f under recover and a watchdog. A panic or a hang kills the world (as it would halt a node).
func (w *World) guarded(what string, f func()) Outcome {
	if w.Dead != "" {
		return Outcome{Out: "dead", Log: w.Dead}
	}
	done := make(chan Outcome, 1)
	go func() {
		defer func() {
			if r := recover(); r != nil {
				done <- Outcome{Out: "panic", Log: fmt.Sprint(r)}
			}
		}()
		f()
		done <- Outcome{Out: "ok"}
	}()
	select {
	case o := <-done:
		if o.Out != "ok" {
			w.Dead = what + ": " + o.Out + ": " + o.Log
		}
		return o
	case <-time.After(blockOpTimeout):
		w.Dead = what + ": timeout (deadlock)"
		return Outcome{Out: "timeout", Log: w.Dead}
	}
}

func (w *World) BeginBlock(dtSeconds int64) Outcome {
	if w.InBlk {
		return Outcome{Out: "err", Log: "already in block"}
	}
	w.H++
	w.T = w.T.Add(time.Duration(dtSeconds) * time.Second)
	w.lastEvents = nil
	o := w.guarded("BeginBlock", func() {
		r := w.App.BeginBlock(abci.RequestBeginBlock{Header: w.header()})
		w.noteResp(&r)
	})
	if o.Out == "ok" {
		w.InBlk = true
	}
	return o
}

type marshaler interface{ Marshal() ([]byte, error) }

func (w *World) noteResp(m marshaler) {
	bz, err := m.Marshal()
	must(err)
	w.lastEvents = append(w.lastEvents, bz)
}

// EndBlock runs EndBlock and Commit; it returns the app hash and the hash of all ABCI responses of the block.
func (w *World) EndBlock() (Outcome, string, string) {
	if !w.InBlk {
		return Outcome{Out: "err", Log: "not in block"}, "", ""
	}
	var appHash string
	o := w.guarded("EndBlock", func() {
		r := w.App.EndBlock(abci.RequestEndBlock{Height: w.H})
		w.noteResp(&r)
		c := w.App.Commit()
		appHash = hex.EncodeToString(c.Data)
	})
	w.InBlk = false
	w.genesisPending = false
	h := sha256.New()
	for _, e := range w.lastEvents {
		h.Write(e)
	}
	return o, appHash, hex.EncodeToString(h.Sum(nil))
}

// SignTx builds a deterministic SIGN_MODE_DIRECT transaction.
func (w *World) SignTx(signer *Acct, seqDelta int64, msgs ...sdk.Msg) ([]byte, error) {
	ctx := w.Ctx()
	acc := w.K.Account.GetAccount(ctx, signer.Addr)
	if acc == nil {
		return nil, fmt.Errorf("unknown account %s", signer.Name)
	}
	seq := uint64(int64(acc.GetSequence()) + seqDelta)
	b := w.Enc.NewTxBuilder()
	if err := b.SetMsgs(msgs...); err != nil {
		return nil, err
	}
	b.SetGasLimit(2000000000)
	b.SetFeeAmount(sdk.Coins{})
	sigV2 := signing.SignatureV2{PubKey: signer.Priv.PubKey(),
		Data:     &signing.SingleSignatureData{SignMode: w.Enc.SignModeHandler().DefaultMode()},
		Sequence: seq}
	if err := b.SetSignatures(sigV2); err != nil {
		return nil, err
	}
	sd := authsigning.SignerData{ChainID: ChainID, AccountNumber: acc.GetAccountNumber(), Sequence: seq}
	sig, err := clienttx.SignWithPrivKey(w.Enc.SignModeHandler().DefaultMode(), sd, b, signer.Priv, w.Enc, seq)
	if err != nil {
		return nil, err
	}
	if err := b.SetSignatures(sig); err != nil {
		return nil, err
	}
	return w.Enc.TxEncoder()(b.GetTx())
}

// AccSeq returns the current account sequence of a named account.
func (w *World) AccSeq(name string) uint64 {
	acc := w.K.Account.GetAccount(w.Ctx(), w.N.Acct(name).Addr)
	if acc == nil {
		return 0
	}
	return acc.GetSequence()
}

// DeliverBytes delivers raw tx bytes in the current block.
func (w *World) DeliverBytes(bz []byte) (Outcome, abci.ResponseDeliverTx) {
	if w.Dead != "" {
		return Outcome{Out: "dead", Log: w.Dead}, abci.ResponseDeliverTx{}
	}
	if !w.InBlk {
		return Outcome{Out: "err", Log: "not in block"}, abci.ResponseDeliverTx{}
	}
	var r abci.ResponseDeliverTx
	o := w.guarded("DeliverTx", func() {
		r = w.App.DeliverTx(abci.RequestDeliverTx{Tx: bz})
		w.noteResp(&r)
	})
	if o.Out != "ok" {
		return o, r
	}
	sum := sha256.Sum256(bz)
	o.Hash = fmt.Sprintf("%x", sum)
	if r.Code != 0 {
		o.Out = "err"
		o.Code = r.Code
		o.Log = r.Log
		if len(o.Log) > 160 {
			o.Log = o.Log[:160]
		}
	}
	return o, r
}

// Deliver signs msgs with the named account and delivers the transaction.
func (w *World) Deliver(signer string, msgs ...sdk.Msg) (Outcome, abci.ResponseDeliverTx) {
	bz, err := w.SignTx(w.N.Acct(signer), 0, msgs...)
	if err != nil {
		return Outcome{Out: "err", Log: "sign: " + err.Error()}, abci.ResponseDeliverTx{}
	}
	return w.DeliverBytes(bz)
}

var _ = cryptocodec.RegisterInterfaces
