// Package runner executes action scripts on a World and records the trace (one JSON object per step).
package runner

import (
	"bufio"
	"encoding/json"
	"io"
	"strings"

	"verifharness/world"
)

// Script is one behaviour to replay: a genesis configuration and a list of actions.
type Script struct {
	Id     string      `json:"id"`
	Family string      `json:"family,omitempty"`
	Cfg    *world.Cfg  `json:"cfg,omitempty"`
	Evm    string      `json:"evm,omitempty"` // chain backed by the real contract on a simulated EVM
	Acts   []world.Act `json:"acts"`
}

type Options struct {
	Digest bool // include the raw state digest in every step line
	NoPost bool // omit the projected state (for bulk scenarios)
	// Service, if set, creates the environment that executes actions of external services (OrcRelay: the real
	// oracle service); it writes the lines of such an action itself
	Service func(w *world.World, emit func(world.J)) (relay func(i int, a world.Act), closeFn func(), err error)
}

// Run executes the script on a fresh world and writes the trace to out.
func Run(s Script, base world.Cfg, opt Options, out io.Writer) (*world.World, error) {
	cfg := base
	if s.Cfg != nil {
		cfg = *s.Cfg
	}
	var w *world.World
	if s.Evm != "" {
		var err error
		if w, err = world.NewWithEvm(cfg, s.Evm); err != nil {
			if strings.Contains(err.Error(), "deployment reverted") {
				// the real contract's constructor refuses the hub's own current signer set: an observation, not an
				// environment failure (C08: what the hub emits must be executable)
				enc := json.NewEncoder(out)
				_ = enc.Encode(world.J{"k": "deployfail", "id": s.Id, "family": s.Family, "log": err.Error()})
				return &world.World{}, nil
			}
			return nil, err
		}
	} else {
		w = world.New(cfg)
	}
	enc := json.NewEncoder(out)
	enc.SetEscapeHTML(false)
	first := world.J{"k": "reset", "id": s.Id, "family": s.Family}
	if !opt.NoPost {
		first["cfg"] = cfgJSON(cfg)
		first["aux"] = w.Aux()
		first["post"] = w.Project()
	}
	if err := enc.Encode(first); err != nil {
		return w, err
	}
	var relay func(int, world.Act)
	for i, a := range s.Acts {
		a["i"] = i + 1
		if a.S("k") == "OrcRelay" && opt.Service != nil {
			if relay == nil {
				r, closeFn, err := opt.Service(w, func(j world.J) { _ = enc.Encode(j) })
				if err != nil {
					return w, err
				}
				defer closeFn()
				relay = r
			}
			relay(i+1, a)
			if w.Dead != "" {
				break
			}
			continue
		}
		o := w.Exec(a)
		line := world.J{"k": "step", "i": i + 1, "act": world.J{"k": a.S("k")}, "res": o}
		if !opt.NoPost {
			line["act"] = w.Canon(a)
		}
		if !opt.NoPost {
			line["post"] = w.Project()
		}
		if opt.NoPost && s.Family == "bulk" && w.Dead == "" {
			line["sum"] = w.Summary()
		}
		if opt.Digest && w.Dead == "" {
			line["digest"] = w.Digest()
		}
		if err := enc.Encode(line); err != nil {
			return w, err
		}
		if w.Dead != "" {
			break
		}
	}
	return w, nil
}

func cfgJSON(c world.Cfg) interface{} { return CfgJSON(c) }

// CfgJSON renders a configuration for the trace (TLC's Json module has no null).
func CfgJSON(c world.Cfg) interface{} {
	bz, _ := json.Marshal(c)
	var v map[string]interface{}
	_ = json.Unmarshal(bz, &v)
	for k, x := range v { // TLC's Json module has no null
		if x == nil {
			delete(v, k)
		}
	}
	return v
}

// ReadScripts reads newline-delimited scripts.
func ReadScripts(r io.Reader) ([]Script, error) {
	var out []Script
	sc := bufio.NewScanner(r)
	sc.Buffer(make([]byte, 1<<20), 64<<20)
	for sc.Scan() {
		line := sc.Bytes()
		if len(line) == 0 {
			continue
		}
		var s Script
		if err := json.Unmarshal(line, &s); err != nil {
			return nil, err
		}
		out = append(out, s)
	}
	return out, sc.Err()
}
