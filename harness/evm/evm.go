// Package evm runs the REAL compiled Hub2 contract (ABI and bytecode parsed out of /repo/solidity/contracts/Hub2.go
// at run time) on go-ethereum's in-process SimulatedBackend, with WETH9 instances as ERC-20 tokens.
package evm

import (
	"context"
	"crypto/ecdsa"
	"fmt"
	"math/big"
	"os"
	"regexp"
	"strconv"
	"strings"

	"github.com/ethereum/go-ethereum/accounts/abi"
	"github.com/ethereum/go-ethereum/accounts/abi/bind"
	"github.com/ethereum/go-ethereum/accounts/abi/bind/backends"
	"github.com/ethereum/go-ethereum/common"
	"github.com/ethereum/go-ethereum/core"
	"github.com/ethereum/go-ethereum/core/types"
	"github.com/ethereum/go-ethereum/crypto"
)

// Binding holds an ABI and creation bytecode taken from a generated Go binding file.
type Binding struct {
	ABI abi.ABI
	Bin []byte
}

var reABI = regexp.MustCompile(`(?s)ABI:\s*"((?:[^"\\]|\\.)*)"`)
var reBin = regexp.MustCompile(`(?s)Bin:\s*"(0x[0-9a-fA-F]*)"`)

// LoadBinding parses `ABI: "..."` and `Bin: "0x..."` out of an abigen output file.
func LoadBinding(path string) (*Binding, error) {
	bz, err := os.ReadFile(path)
	if err != nil {
		return nil, err
	}
	m := reABI.FindSubmatch(bz)
	if m == nil {
		return nil, fmt.Errorf("%s: no ABI", path)
	}
	js, err := strconv.Unquote(`"` + string(m[1]) + `"`)
	if err != nil {
		return nil, err
	}
	parsed, err := abi.JSON(strings.NewReader(js))
	if err != nil {
		return nil, err
	}
	b := reBin.FindSubmatch(bz)
	if b == nil {
		return nil, fmt.Errorf("%s: no Bin", path)
	}
	return &Binding{ABI: parsed, Bin: common.FromHex(string(b[1]))}, nil
}

// Chain is one simulated EVM chain with the bridge contract and its tokens.
type Chain struct {
	Backend  *backends.SimulatedBackend
	Hub      *bind.BoundContract
	HubAddr  common.Address
	HubABI   abi.ABI
	Tokens   map[string]common.Address // model token name -> WETH9 instance
	tokBound map[string]*bind.BoundContract
	Weth     common.Address
	Deployer *ecdsa.PrivateKey
	ChainID  *big.Int
	// the validator set whose checkpoint the contract stores (the contract keeps only the hash)
	SetNonce  uint64
	SetAddrs  []common.Address
	SetPowers []*big.Int
	Threshold *big.Int
	GravityID [32]byte
}

func auth(key *ecdsa.PrivateKey, chainID *big.Int) *bind.TransactOpts {
	a, err := bind.NewKeyedTransactorWithChainID(key, chainID)
	if err != nil {
		panic(err)
	}
	a.GasLimit = 8000000
	return a
}

// New deploys WETH9 (the contract's weth address), one WETH9 per token name, and Hub2 with the given first validator set.
func New(repo string, deployer *ecdsa.PrivateKey, funded []*ecdsa.PrivateKey, gravityID string, threshold *big.Int,
	addrs []common.Address, powers []*big.Int, tokens []string) (*Chain, error) {
	hubB, err := LoadBinding(repo + "/solidity/contracts/Hub2.go")
	if err != nil {
		return nil, err
	}
	wethB, err := LoadBinding(repo + "/solidity/contracts/WETH9.go")
	if err != nil {
		return nil, err
	}
	alloc := core.GenesisAlloc{}
	big1e30, _ := new(big.Int).SetString("1000000000000000000000000000000", 10)
	for _, k := range append([]*ecdsa.PrivateKey{deployer}, funded...) {
		alloc[crypto.PubkeyToAddress(k.PublicKey)] = core.GenesisAccount{Balance: big1e30}
	}
	be := backends.NewSimulatedBackend(alloc, 30000000)
	c := &Chain{Backend: be, Deployer: deployer, ChainID: big.NewInt(1337), Tokens: map[string]common.Address{}, tokBound: map[string]*bind.BoundContract{},
		Threshold: threshold, HubABI: hubB.ABI}
	copy(c.GravityID[:], []byte(gravityID))
	wethAddr, _, _, err := bind.DeployContract(auth(deployer, c.ChainID), wethB.ABI, wethB.Bin, be)
	if err != nil {
		return nil, err
	}
	be.Commit()
	c.Weth = wethAddr
	for _, t := range tokens {
		a, _, bc, err := bind.DeployContract(auth(deployer, c.ChainID), wethB.ABI, wethB.Bin, be)
		if err != nil {
			return nil, err
		}
		be.Commit()
		c.Tokens[t] = a
		c.tokBound[t] = bc
	}
	hubAddr, _, hub, err := bind.DeployContract(auth(deployer, c.ChainID), hubB.ABI, hubB.Bin, be,
		c.GravityID, threshold, addrs, powers, wethAddr, crypto.PubkeyToAddress(deployer.PublicKey))
	if err != nil {
		return nil, err
	}
	be.Commit()
	rc, err := be.TransactionReceipt(context.Background(), c.lastTxHash())
	_ = rc
	c.Hub, c.HubAddr = hub, hubAddr
	c.SetNonce, c.SetAddrs, c.SetPowers = 0, addrs, powers
	code, _ := be.CodeAt(context.Background(), hubAddr, nil)
	if len(code) == 0 {
		return nil, fmt.Errorf("Hub2 deployment reverted (constructor requires enough power)")
	}
	return c, nil
}

func (c *Chain) lastTxHash() common.Hash { return common.Hash{} }

// Height is the number of the last mined block.
func (c *Chain) Height() uint64 { return c.Backend.Blockchain().CurrentBlock().NumberU64() }

func (c *Chain) Mine(n int) {
	for i := 0; i < n; i++ {
		c.Backend.Commit()
	}
}

// send signs and mines one transaction; returns the receipt status and the revert reason if any.
func (c *Chain) send(key *ecdsa.PrivateKey, bc *bind.BoundContract, value *big.Int, method string, args ...interface{}) (*types.Receipt, string) {
	opts := auth(key, c.ChainID)
	opts.Value = value
	tx, err := bc.Transact(opts, method, args...)
	if err != nil {
		return nil, err.Error()
	}
	c.Backend.Commit()
	rc, err := c.Backend.TransactionReceipt(context.Background(), tx.Hash())
	if err != nil {
		return nil, err.Error()
	}
	if rc.Status != 1 {
		return rc, "reverted"
	}
	return rc, ""
}

// TokenBalance reads balanceOf.
func (c *Chain) TokenBalance(tok string, who common.Address) *big.Int {
	var out []interface{}
	if err := c.tokBound[tok].Call(&bind.CallOpts{}, &out, "balanceOf", who); err != nil {
		return big.NewInt(-1)
	}
	return out[0].(*big.Int)
}

func (c *Chain) callUint(method string, args ...interface{}) *big.Int {
	var out []interface{}
	if err := c.Hub.Call(&bind.CallOpts{}, &out, method, args...); err != nil {
		return big.NewInt(-1)
	}
	return out[0].(*big.Int)
}

func (c *Chain) LastValsetNonce() uint64 { return c.callUint("state_lastValsetNonce").Uint64() }
func (c *Chain) LastEventNonce() uint64  { return c.callUint("state_lastEventNonce").Uint64() }
func (c *Chain) LastBatchNonce(tok string) uint64 {
	return c.callUint("lastBatchNonce", c.Tokens[tok]).Uint64()
}
func (c *Chain) Checkpoint() [32]byte {
	var out []interface{}
	if err := c.Hub.Call(&bind.CallOpts{}, &out, "state_lastValsetCheckpoint"); err != nil {
		return [32]byte{}
	}
	return out[0].([32]byte)
}

// DepositEvent is a parsed TransferToChainEvent.
type DepositEvent struct {
	Token, Sender common.Address
	DestChain     string
	Dest          [32]byte
	Amount, Fee   *big.Int
	EventNonce    uint64
	Height        uint64
	TxHash        common.Hash
}

// Deposit wraps ETH into the token, approves the bridge and calls transferToChain.
func (c *Chain) Deposit(user *ecdsa.PrivateKey, tok string, destChain string, dest [32]byte, amount, fee *big.Int) (*DepositEvent, string) {
	tb := c.tokBound[tok]
	if tb == nil {
		return nil, "unknown token"
	}
	if amount.Sign() > 0 {
		if _, e := c.send(user, tb, amount, "deposit"); e != "" {
			return nil, "wrap: " + e
		}
	}
	if _, e := c.send(user, tb, nil, "approve", c.HubAddr, amount); e != "" {
		return nil, "approve: " + e
	}
	var dc [32]byte
	copy(dc[:], []byte(destChain))
	rc, e := c.send(user, c.Hub, nil, "transferToChain", c.Tokens[tok], dc, dest, amount, fee)
	if e != "" {
		return nil, e
	}
	for _, lg := range rc.Logs {
		if lg.Address != c.HubAddr || len(lg.Topics) != 4 {
			continue
		}
		ev, ok := c.HubABI.Events["TransferToChainEvent"]
		if !ok || lg.Topics[0] != ev.ID {
			continue
		}
		vals, err := ev.Inputs.NonIndexed().Unpack(lg.Data)
		if err != nil {
			return nil, err.Error()
		}
		return &DepositEvent{Token: common.BytesToAddress(lg.Topics[1].Bytes()), Sender: common.BytesToAddress(lg.Topics[2].Bytes()),
			DestChain: strings.TrimRight(string(lg.Topics[3].Bytes()), "\x00"), Dest: vals[0].([32]byte), Amount: vals[1].(*big.Int), Fee: vals[2].(*big.Int),
			EventNonce: vals[3].(*big.Int).Uint64(), Height: rc.BlockNumber.Uint64(), TxHash: rc.TxHash}, ""
	}
	return nil, "no event"
}

// Sig is one validator signature split for the contract (v = 0 means "no signature").
type Sig struct {
	V    uint8
	R, S [32]byte
}

func SplitSig(sig []byte) Sig {
	var s Sig
	if len(sig) < 65 {
		return s
	}
	copy(s.R[:], sig[0:32])
	copy(s.S[:], sig[32:64])
	s.V = sig[64]
	if s.V < 27 {
		s.V += 27
	}
	return s
}

func splitArrays(sigs []Sig) ([]uint8, [][32]byte, [][32]byte) {
	v := make([]uint8, len(sigs))
	r := make([][32]byte, len(sigs))
	s := make([][32]byte, len(sigs))
	for i, x := range sigs {
		v[i], r[i], s[i] = x.V, x.R, x.S
	}
	return v, r, s
}

// UpdateValset submits a signer set update; sigs are aligned with the contract's current set.
func (c *Chain) UpdateValset(relayer *ecdsa.PrivateKey, newAddrs []common.Address, newPowers []*big.Int, newNonce uint64, sigs []Sig) (uint64, common.Hash, string) {
	v, r, s := splitArrays(sigs)
	rc, e := c.send(relayer, c.Hub, nil, "updateValset", newAddrs, newPowers, new(big.Int).SetUint64(newNonce),
		c.SetAddrs, c.SetPowers, new(big.Int).SetUint64(c.SetNonce), v, r, s)
	if e != "" {
		return 0, common.Hash{}, e
	}
	c.SetNonce, c.SetAddrs, c.SetPowers = newNonce, newAddrs, newPowers
	return rc.BlockNumber.Uint64(), rc.TxHash, ""
}

// SubmitBatch submits a transaction batch.
func (c *Chain) SubmitBatch(relayer *ecdsa.PrivateKey, sigs []Sig, amounts []*big.Int, dests []common.Address, fees []*big.Int, nonce uint64, token common.Address, timeout uint64) (uint64, common.Hash, string) {
	v, r, s := splitArrays(sigs)
	rc, e := c.send(relayer, c.Hub, nil, "submitBatch", c.SetAddrs, c.SetPowers, new(big.Int).SetUint64(c.SetNonce), v, r, s,
		amounts, dests, fees, new(big.Int).SetUint64(nonce), token, new(big.Int).SetUint64(timeout))
	if e != "" {
		return 0, common.Hash{}, e
	}
	return rc.BlockNumber.Uint64(), rc.TxHash, ""
}
